//! Observers evaluated in every explored state of some families: forged / foreign keys
//! (C08, C17), re-encapsulation (C18), headers (C13). They must not change the world; every
//! probe checks that itself (C10).

use std::collections::BTreeSet;
use std::panic::{catch_unwind, AssertUnwindSafe};

use cosmian_cover_crypt::{api::Covercrypt, traits::KemAc, AccessPolicy, CleartextHeader, EncryptedHeader, UserSecretKey};
use cosmian_crypto_core::bytes_ser_de::Serializable;

use crate::model::*;
use crate::wire::{self, WUsk};
use crate::world::{msk_diff, msk_equal_canon, ser, Op, World};

pub fn run(w: &mut World, kind: &str, last: &Op) {
    match kind {
        "forged" => forged(w),
        "foreign" => foreign(w),
        "recaps" => recaps(w, last),
        "headers" => headers(w),
        "pke" | "tenant" => {}
        _ => crate::common::machinery(&format!("unknown probe {kind}")),
    }
}

/// `refresh_usk(msk, key)` must fail and change neither key.
fn must_refuse(w: &mut World, key: &mut UserSecretKey, what: &str, clause: &str) {
    let before_m = ser(&w.msk);
    let before_u = ser(key);
    for keep in [true, false] {
        let r = catch_unwind(AssertUnwindSafe(|| w.cc.refresh_usk(&mut w.msk, key, keep)));
        w.bump("refusal_probes");
        match r {
            Err(_) => w.fail("C09.p", format!("refresh of {what}: panicked")),
            Ok(Ok(())) => {
                w.fail(clause, format!("refresh(keep={keep}) accepted {what}"));
                w.fail("C09.e", format!("refresh(keep={keep}) of {what} returned Ok, the contract says Err"));
                return;
            }
            Ok(Err(_)) => {}
        }
        let after_m = ser(&w.msk);
        if after_m != before_m && !msk_equal_canon(&before_m, &after_m) {
            w.fail("C10.a", format!("refused refresh of {what} modified the master key: {}", msk_diff(&before_m, &after_m)));
        }
        if ser(key) != before_u {
            w.fail("C10.b", format!("refused refresh of {what} modified the user key"));
            if let Some(m) = crate::world::tracing_part_changed(&before_u, &ser(key)) {
                w.fail("C17.g", format!("refused refresh of {what}: {m}"));
            }
        }
    }
}

/// One representative of each tamper class of C08 applied to every live issued key.
fn forged(w: &mut World) {
    for k in 0..w.usks.len() {
        if !w.usks[k].known {
            continue;
        }
        let bytes = ser(&w.usks[k].usk);
        let Ok(u) = WUsk::decode(&bytes) else { continue };
        let mut variants: Vec<(&str, WUsk)> = vec![];
        if let Some(sig) = &u.sig {
            let mut v = u.clone();
            let mut s = sig.clone();
            s[0] ^= 1;
            v.sig = Some(s);
            variants.push(("a key with an altered signature", v));
            let mut v = u.clone();
            v.sig = None;
            variants.push(("a key with its signature stripped", v));
        }
        if u.chains.len() > 1 {
            let mut v = u.clone();
            v.chains.pop();
            variants.push(("a key with one right removed", v));
            let mut v = u.clone();
            v.chains.swap(0, 1);
            variants.push(("a key with two rights reordered", v));
            let mut v = u.clone();
            let (a, b) = (v.chains[0].1.clone(), v.chains[1].1.clone());
            v.chains[0].1 = b;
            v.chains[1].1 = a;
            variants.push(("a key with the secrets of two rights exchanged", v));
        }
        if u.id.len() > 1 {
            let mut v = u.clone();
            v.id.swap(0, 1);
            variants.push(("a key with its markers exchanged", v));
        }
        for (what, v) in variants {
            let b = v.encode();
            if b == bytes {
                continue;
            }
            if let Ok(Ok(mut key)) = catch_unwind(|| UserSecretKey::deserialize(&b)) {
                must_refuse(w, &mut key, &format!("{what} (forged from key {k})"), "C08.a");
            }
        }
    }
    // refusing forgeries must not cost the genuine keys their registration
    if let Ok(m) = wire::WMsk::decode(&ser(&w.msk)) {
        for k in 0..w.usks.len() {
            if !w.usks[k].known {
                continue;
            }
            if let Ok(u) = WUsk::decode(&ser(&w.usks[k].usk)) {
                if !m.users.contains(&u.id) {
                    w.fail("C17.a", format!("after refusing forged keys, the id of the genuine key {k} is no longer registered in the master key"));
                }
            }
        }
    }
}

/// A key issued by another master key over the same structure must be refused.
fn foreign(w: &mut World) {
    let cc = Covercrypt::default();
    let Ok((mut other, _)) = cc.setup() else { return };
    other.access_structure = w.msk.access_structure.clone();
    if cc.update_msk(&mut other).is_err() {
        return;
    }
    let Ok(ap) = AccessPolicy::parse("*") else { return };
    let Ok(mut key) = cc.generate_user_secret_key(&mut other, &ap) else { return };
    must_refuse(w, &mut key, "a key issued by another master key", "C17.f");
    forged(w);
}

/// C18: re-encapsulation of every original under the two most recent public keys.
fn recaps(w: &mut World, _last: &Op) {
    let n = w.mpks.len();
    let js: Vec<usize> = if n >= 2 { vec![n - 1, n - 2] } else { vec![n - 1] };
    let mut originals = vec![];
    for j in 0..n {
        originals.extend(w.menu_under(j, false));
    }
    // the long-lived originals (re-encapsulated after every earlier operation of the history)
    for e in &w.recaps_longlived {
        originals.push(crate::world::EncEntry { enc: e.enc.clone(), secret: e.secret.clone(), model: e.model.clone(), mpk: e.mpk, policy: format!("{} (long-lived)", e.policy) });
    }
    let before_m = ser(&w.msk);
    for orig in &originals {
        for &j in &js {
            let open: BTreeSet<RightM> = orig.model.targets.iter().filter(|(r, v)| w.model.master.get(r).is_some_and(|c| c.iter().any(|e| e.ver == *v && (e.hybrid || !orig.model.hybrid)))).map(|(r, _)| r.clone()).collect();
            let pubj = w.mpks[j].model.clone();
            let pubj = &pubj;
            let wide: BTreeSet<RightM> = open.iter().filter(|r| pubj.keys.contains_key(*r)).cloned().collect();
            let strict: BTreeSet<RightM> = wide.iter().filter(|r| w.model.master[*r][0].activated).cloned().collect();
            // a given public key that lacks one of the rights the master key recovers and still
            // publishes (it predates the right) cannot target exactly those rights: an error is
            // within the statement then (a success is still checked against the rights it has)
            let stale_pk = open.iter().any(|r| w.model.master[r][0].activated && !pubj.keys.contains_key(r));
            let desc = format!("recaps(original {:?} made under public key {}, public key {j})", orig.policy, orig.mpk);
            let r = catch_unwind(AssertUnwindSafe(|| w.cc.recaps(&w.msk, &w.mpks[j].mpk, &orig.enc)));
            w.bump("recaps");
            match r {
                Err(_) => w.fail("C09.p", format!("{desc}: panicked")),
                Ok(Err(e)) => {
                    if stale_pk {
                        w.bump("recaps_err_stale_public_key");
                    } else if !strict.is_empty() {
                        let names: Vec<String> = strict.iter().map(|r| w.show_right(r)).collect();
                        w.fail("C18.c", format!("{desc}: failed ({e}) although the master key can still open and publish {names:?}"));
                    } else {
                        w.bump("recaps_err_expected");
                    }
                }
                Ok(Ok((secret, enc))) => {
                    if open.is_empty() {
                        w.fail("C18.a", format!("{desc}: succeeded although none of the original rights can be recovered"));
                        continue;
                    }
                    if strict.is_empty() {
                        w.fail("C18.p", format!("{desc}: succeeded although the master key publishes none of the original rights any more (they are disabled)"));
                        continue;
                    }
                    if secret.to_vec() == orig.secret {
                        w.fail("C18.n", format!("{desc}: returned the original secret"));
                    }
                    if ser(&enc) == ser(&orig.enc) {
                        w.fail("C18.n", format!("{desc}: returned the original encapsulation"));
                    }
                    w.bump("recaps_ok");
                    if let Ok(we) = wire::WEnc::decode(&ser(&enc)) {
                        // exactly the rights the master key can still open AND still publishes (a
                        // right disabled since is not published by the master key, even if the
                        // given, older, public key still holds an encryption key for it)
                        if we.items.len() != strict.len() {
                            w.fail("C18.t", format!("{desc}: new encapsulation has {} targets, expected {} (openable and still published: {} of the original {})", we.items.len(), strict.len(), strict.len(), orig.model.targets.len()));
                        }
                        {
                            let hybrid = strict.iter().all(|r| pubj.keys[r].1);
                            if we.hybrid != hybrid {
                                w.fail("C11.d", format!("{desc}: new encapsulation hybrid={}, expected {hybrid}", we.hybrid));
                            }
                        }
                    }
                    for k in 0..w.usks.len() {
                        let held = w.usks[k].model.held.clone();
                        let classic = w.usks[k].model.classic.clone();
                        let hybrid_new = strict.iter().all(|r| pubj.keys[r].1);
                        let holds = |set: &BTreeSet<RightM>| set.iter().any(|r| held.get(r).is_some_and(|h| h.contains(&pubj.keys[r].0)) && !(hybrid_new && classic.contains(&(r.clone(), pubj.keys[r].0))));
                        let must = holds(&strict);
                        let may = must;
                        let _ = &wide;
                        let got = catch_unwind(AssertUnwindSafe(|| w.cc.decaps(&w.usks[k].usk, &enc)));
                        w.bump("decaps");
                        match got {
                            Ok(Ok(Some(s))) => {
                                if !may {
                                    w.fail("C18.d", format!("{desc}: key {k} ({}) opens the new encapsulation although it holds none of its rights", w.usks[k].policy));
                                } else if s.to_vec() != secret.to_vec() {
                                    w.fail("C18.s", format!("{desc}: key {k} recovers a secret different from the new one"));
                                }
                            }
                            Ok(Ok(None)) => {
                                if must {
                                    w.fail("C18.o", format!("{desc}: key {k} ({}) is up to date and authorised for a re-encapsulated right but cannot open the new encapsulation", w.usks[k].policy));
                                }
                            }
                            _ => w.fail("C09.d", format!("{desc}: decaps of the new encapsulation failed for key {k}")),
                        }
                    }
                }
            }
        }
    }
    if ser(&w.msk) != before_m {
        w.fail("C10.a", "recaps modified the master key".to_string());
    }
}

/// C13 for encrypted and cleartext headers.
fn headers(w: &mut World) {
    let j = w.mpks.len() - 1;
    let Ok(ap) = AccessPolicy::parse("A::x || A::y") else { return };
    let dnf = parse_dnf("A::x || A::y");
    let Ok(encm) = w.mpks[j].model.encaps(&dnf) else { return };
    for (md, ad) in [(None, None), (Some(&b""[..]), Some(&b"ad"[..])), (Some(&b"m"[..]), None), (Some(&[7u8; 40][..]), Some(&b"ad"[..]))] {
        let r = catch_unwind(AssertUnwindSafe(|| EncryptedHeader::generate(&w.cc, &w.mpks[j].mpk, &ap, md, ad)));
        w.bump("headers");
        let Ok(Ok((secret, hdr))) = r else {
            w.fail("C09.o", "EncryptedHeader::generate failed for a publishable policy".to_string());
            continue;
        };
        let b = ser(&hdr);
        if b.len() != hdr.length() {
            w.fail("C13.l", format!("encrypted header length() = {}, serialised {}", hdr.length(), b.len()));
        }
        match catch_unwind(|| EncryptedHeader::deserialize(&b)) {
            Ok(Ok(h2)) => {
                let same = h2.encapsulation == hdr.encapsulation && h2.encrypted_metadata.clone().unwrap_or_default() == hdr.encrypted_metadata.clone().unwrap_or_default();
                if !same {
                    w.fail("C13.e", "deserialised encrypted header differs from the original".to_string());
                }
                match wire::WHeader::decode(&b) {
                    Ok(wh) => {
                        if wh.md != hdr.encrypted_metadata.clone().unwrap_or_default() || wh.enc.hybrid != encm.hybrid {
                            w.fail("C13.w", "encrypted header decodes to unexpected fields".to_string());
                        }
                    }
                    Err(e) => w.fail("C13.w", format!("encrypted header does not decode with the pinned layout: {e}")),
                }
                for k in 0..w.usks.len() {
                    let want = w.usks[k].model.opens(&encm);
                    match catch_unwind(AssertUnwindSafe(|| h2.decrypt(&w.cc, &w.usks[k].usk, ad))) {
                        Ok(Ok(Some(clear))) => {
                            if !want {
                                w.fail("C13.o", format!("key {k} decrypts a header it is not authorised for"));
                            }
                            if clear.secret.to_vec() != secret.to_vec() || clear.metadata.clone().unwrap_or_default() != md.unwrap_or_default() {
                                w.fail("C13.o", "deserialised header decrypts to a different secret or metadata".to_string());
                            }
                            let cb = ser(&clear);
                            if cb.len() != clear.length() {
                                w.fail("C13.l", "cleartext header length() differs from its serialisation".to_string());
                            }
                            match catch_unwind(|| CleartextHeader::deserialize(&cb)) {
                                Ok(Ok(c2)) => {
                                    if c2.secret != clear.secret || c2.metadata.clone().unwrap_or_default() != clear.metadata.clone().unwrap_or_default() {
                                        w.fail("C13.e", "deserialised cleartext header differs from the original".to_string());
                                    }
                                    if wire::WClear::decode(&cb).map(|c| c.md != md.unwrap_or_default()).unwrap_or(true) {
                                        w.fail("C13.w", "cleartext header does not decode to the metadata".to_string());
                                    }
                                }
                                _ => w.fail("C13.d", "own cleartext header rejected by deserialize".to_string()),
                            }
                        }
                        Ok(Ok(None)) => {
                            if want {
                                w.fail("C13.o", format!("key {k} cannot decrypt a deserialised header it is authorised for"));
                            }
                        }
                        _ => w.fail("C13.o", format!("decrypting a deserialised header with key {k} failed")),
                    }
                }
            }
            _ => w.fail("C13.d", "own encrypted header rejected by deserialize".to_string()),
        }
    }
}
