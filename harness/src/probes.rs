//! Observers that are evaluated in every explored state of some families: invalid-argument
//! probes (C09/C10), failing calls (C10), foreign keys (C17/C08), recaps (C18), headers (C13).

use crate::world::{Op, World};

pub fn run(_w: &mut World, kind: &str, _last: &Op) {
    match kind {
        "args" | "fail" | "foreign" | "recaps" | "headers" => {}
        _ => crate::common::machinery(&format!("unknown probe {kind}")),
    }
}
