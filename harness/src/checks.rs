//! Property -> engines, bounds, owned clauses.

use serde_json::json;

use crate::common::{machinery, read_json, Run};
use crate::histex::{self, family};

pub struct HxPlan {
    pub family: &'static str,
    pub quick_depth: usize,
    pub thorough_depth: usize,
}

fn histex_check(prop: &str, tier: &str, plans: &[HxPlan], owned: &[&str], note: &str) -> i32 {
    let mut run = Run::new(prop, tier, "model_checking");
    histex_part(&mut run, tier, plans, owned, note);
    run.finish()
}

fn histex_part(run: &mut Run, tier: &str, plans: &[HxPlan], owned: &[&str], note: &str) {
    let (mut states, mut trans) = (0u64, 0u64);
    let mut fams = vec![];
    let cap_total: f64 = std::env::var("VERIF_CAP_SECS").ok().and_then(|s| s.parse().ok()).unwrap_or(if tier == "quick" && crate::common::is_sub() { 8.0 } else if tier == "quick" { 45.0 } else if crate::common::is_sub() { 300.0 } else { 600.0 });
    let t_start = std::time::Instant::now();
    let mut exhaustive = true;
    let mut decoder_disagreements = 0u64;
    for (i, p) in plans.iter().enumerate() {
        // equal shares of what is left: time a family does not use goes to the later ones
        let per = ((cap_total - t_start.elapsed().as_secs_f64()) / (plans.len() - i) as f64).max(cap_total / (4 * plans.len()) as f64);
        let fam = family(p.family);
        let mut depth = if tier == "quick" { p.quick_depth } else { p.thorough_depth };
        if tier == "quick" && crate::common::is_sub() {
            depth = depth.min(3); // reduced run on the second configuration (15 s cap: depth 2 always completes)
        }
        let st = histex::explore(run, &fam, depth, per, owned);
        states += st.states;
        trans += st.transitions;
        if st.depth_completed < depth {
            exhaustive = false;
        }
        decoder_disagreements += st.decoder_disagreements;
        fams.push(histex::stats_json(&fam, &st));
    }
    // the same oracle along one long history on a large structure (131 attributes, ~400 rights,
    // two-byte identifiers): thresholds that the small worlds of the BFS cannot reach
    // (not in the reduced quick run on the second configuration: ids and counts do not depend on it)
    let (big_steps, _) = if tier == "quick" && crate::common::is_sub() { (0, Default::default()) } else { histex::run_path(run, "big", &histex::big_path(), owned) };
    states += big_steps;
    trans += big_steps;
    run.set("large_structure_path_steps", json!(big_steps));
    run.set("states", json!(states));
    run.set("transitions", json!(trans));
    run.set("traces_validated_against_impl", json!(trans));
    run.set("families", json!(fams));
    run.set("histories_exhaustive_to_stated_depth", json!(exhaustive));
    run.set("owned_clauses", json!(owned));
    run.set("histex_rule", json!(note));
    run.assume("the library's own RNG is not controlled: compared outcomes (Ok/Err, Some/None, equality of secrets, decoded shapes) do not depend on random values");
    run.assume("128-bit tag / scalar collisions are treated as impossible");
    if trans == 0 && run.violations.is_empty() {
        machinery("no transition explored");
    }
    if decoder_disagreements > 0 && run.violations.is_empty() {
        machinery(&format!("the independent wire decoder and the library disagreed on the layout of {decoder_disagreements} objects; that is C13's verdict to give (run `bin/check C13 quick`) and this run's coverage is compromised"));
    }
}

pub fn dispatch(args: &[String]) -> i32 {
    match args.first().map(String::as_str) {
        Some("run") => {
            let prop = args.get(1).map(String::as_str).unwrap_or_else(|| machinery("usage: vh run <ID> <tier>"));
            let tier = args.get(2).map(String::as_str).unwrap_or("quick");
            // backstop: a library call that never returns (a self-deadlock in sequential use) must
            // end the check, not hang it; every engine has its own, much shorter, wall caps
            let limit: u64 = std::env::var("VERIF_HARD_LIMIT_SECS").ok().and_then(|s| s.parse().ok()).unwrap_or(if tier == "quick" { 600 } else { 5 * 3_600 });
            let (p2, t2) = (prop.to_string(), tier.to_string());
            std::thread::spawn(move || {
                std::thread::sleep(std::time::Duration::from_secs(limit));
                println!("MACHINERY-ERROR: {p2} {t2} did not finish within {limit} s (a call that never returns, or an overloaded machine); no verdict");
                std::process::exit(2);
            });
            run_check(prop, tier)
        }
        Some("replay") => {
            let path = args.get(1).unwrap_or_else(|| machinery("usage: vh replay <file>"));
            replay(path)
        }
        Some("worker") => crate::fparse::worker_main(),
        Some("sched-scenario") => crate::sched::scenario_main(args[1].parse().unwrap_or(0), &args[2], args[3].parse().unwrap_or(40.0)),
        Some("parse") => {
            // ad-hoc: vh parse <policy>...
            for a in &args[1..] {
                println!("{a:?} -> {:?}", cosmian_cover_crypt::AccessPolicy::parse(a).map(|p| (format!("{p:?}"), p.to_dnf())));
            }
            0
        }
        Some("sched-soak") => crate::sched::soak_main(args[1].parse().unwrap_or(100_000), args[2].parse().unwrap_or(4)),
        Some("genfix") => crate::fixtures::generate(),
        Some("checkfix") => {
            let (n, fails) = crate::fixtures::check();
            for (c, m) in &fails {
                println!("[{c}] {m}");
            }
            println!("{n} fixture checks, {} failures", fails.len());
            i32::from(!fails.is_empty())
        }
        Some("bigpath") => {
            let owned_s = args.get(1).cloned().unwrap_or("C".into());
            let owned: Vec<&str> = owned_s.split(',').collect();
            let mut run = Run::new("ADHOC", "quick", "model_checking");
            let t = std::time::Instant::now();
            let (steps, counts) = histex::run_path(&mut run, "big", &histex::big_path(), &owned);
            println!("steps {steps} in {:.1}s {counts:?}", t.elapsed().as_secs_f64());
            run.set("states", json!(steps));
            run.set("transitions", json!(steps));
            run.finish()
        }
        Some("hx") => {
            // ad-hoc exploration: vh hx <family> <depth> <owned-prefixes,comma>
            let fam = family(args.get(1).map(String::as_str).unwrap_or("rot"));
            let depth: usize = args.get(2).and_then(|s| s.parse().ok()).unwrap_or(2);
            let owned_s = args.get(3).cloned().unwrap_or("C".into());
            let owned: Vec<&str> = owned_s.split(',').collect();
            let mut run = Run::new("ADHOC", "quick", "model_checking");
            let st = histex::explore(&mut run, &fam, depth, 3600.0, &owned);
            println!("{}", serde_json::to_string_pretty(&histex::stats_json(&fam, &st)).unwrap());
            run.set("states", json!(st.states));
            run.set("transitions", json!(st.transitions));
            run.finish()
        }
        _ => machinery("usage: vh run|replay|hx ..."),
    }
}

fn hp(family: &'static str, quick_depth: usize, thorough_depth: usize) -> HxPlan {
    // the second configuration is ~3x slower: one level less
    let t = if crate::common::is_sub() { thorough_depth.saturating_sub(1).max(quick_depth) } else { thorough_depth };
    HxPlan { family, quick_depth, thorough_depth: t }
}

pub fn run_check(prop: &str, tier: &str) -> i32 {
    const HX: &str = "breadth-first search over public-API histories from a fixed initial world; every transition executes the real library call on real keys; after each one the master key, user keys and public keys are decoded from their serialised form and compared with the reference model, and the decaps matrix (live keys x policy menu x every public key published so far) is evaluated; states are de-duplicated on the canonical (model, decoded implementation) state; a state is non-trivial/distinct by that key";
    match prop {
        "C01" | "C02" => {
            let own = if prop == "C01" { "C01." } else { "C02." };
            let mut run = Run::new(prop, tier, "exploration");
            crate::polmat::part(&mut run, tier == "thorough", &[own]);
            // the same decision for keys that went through rotations and refreshes
            histex_part(&mut run, tier, &[hp("auth", 3, 4), hp("dis", 3, 4)], &[own], HX);
            run.finish()
        }
        "C03" => histex_check(prop, tier, &[hp("hyb", 3, 5), hp("emptyh", 6, 8), hp("edit", 4, 6)], &["C03."], HX),
        "C04" => {
            let mut run = Run::new(prop, tier, "model_checking");
            histex_part(&mut run, tier, &[hp("rot", 4, 5), hp("disrot", 4, 5), hp("rotsnap", 4, 5)], &["C04."], HX);
            // many revisions of the same rights: a single long history, every step checked
            let reduced = tier == "quick" && crate::common::is_sub();
            let n = if reduced { 3 } else if tier == "quick" { 10 } else { 24 };
            let mut path = vec![];
            for i in 0..n {
                path.push(crate::world::Op::Rekey(if i % 3 == 2 { "*".into() } else { "A::x".into() }));
                path.push(crate::world::Op::Refresh { k: 0, keep: true });
                if i % 4 == 3 {
                    path.push(crate::world::Op::Refresh { k: 1, keep: true });
                }
            }
            path.push(crate::world::Op::Keygen("A::x && H::hi".into()));
            path.push(crate::world::Op::Refresh { k: 1, keep: false });
            path.push(crate::world::Op::Prune("A::x".into()));
            path.push(crate::world::Op::Refresh { k: 0, keep: true });
            path.push(crate::world::Op::Refresh { k: 0, keep: false });
            let (steps, _) = histex::run_path(&mut run, "rot", &path, &["C04."]);
            // many more revisions, never pruned (sparse: every 15th step and the last three are
            // checked in full, the others by the lock-step comparison of the decoded keys): an old
            // secret must survive any number of later rekeys
            let m = if reduced { 30 } else if tier == "quick" { 48 } else { 140 };
            let mut sparse = vec![];
            for i in 0..m {
                sparse.push(crate::world::Op::Rekey(if i % 2 == 0 { "A::x && H::hi".into() } else { "H::hi".into() }));
                sparse.push(crate::world::Op::Refresh { k: 0, keep: true });
            }
            sparse.push(crate::world::Op::Refresh { k: 1, keep: true });
            let sparse_steps = histex::run_path_sparse(&mut run, "rot", &sparse, &["C04."], if tier == "quick" { 60 } else { 40 }, if reduced { 1 } else { 2 });
            run.set("sparse_long_path_steps", json!(sparse_steps));
            run.set("sparse_long_path_revisions_of_a_hybridized_right", json!(m + 1));
            run.set("long_path_steps", json!(steps));
            run.set("long_path_revisions_of_one_right", json!(n + 1));
            run.finish()
        }
        "C05" => histex_check(prop, tier, &[hp("rotdel", 4, 5), hp("rot", 3, 4), hp("disrot", 4, 5)], &["C05."], HX),
        "C06" => histex_check(prop, tier, &[hp("dis", 4, 6), hp("disrot", 4, 5)], &["C06."], HX),
        "C07" => crate::ftamper::check_c07(prop, tier),
        "C08" => crate::ftamper::check_c08(prop, tier),
        "C09" => {
            let mut run = Run::new(prop, tier, "model_checking");
            histex_part(&mut run, tier, &[hp("args", 3, 4), hp("rot", 3, 4), hp("rotdel", 3, 4), hp("dis", 3, 4), hp("failrot", 3, 4), hp("trace", 3, 4), hp("recaps", 2, 3)], &["C09."], HX);
            // the contract of keygen / encaps / decaps over the structure x policy matrix (same
            // attribute names in several dimensions, many targets, odd names)
            crate::polmat::part_stride(&mut run, tier == "thorough", &["C09."], 3);
            crate::ftamper::hollow_contract(&mut run);
            run.finish()
        }
        "C10" => histex_check(prop, tier, &[hp("failrot", 3, 5), hp("args", 3, 4), hp("trace", 3, 5)], &["C10."], HX),
        "C11" => {
            let mut run = Run::new(prop, tier, "model_checking");
            histex_part(&mut run, tier, &[hp("rot", 3, 4), hp("edit", 3, 4), hp("rt", 3, 4), hp("hyb", 4, 5)], &["C11."], HX);
            crate::polmat::part(&mut run, tier == "thorough", &["C11."]);
            crate::ftamper::hybrid_binding(&mut run);
            run.finish()
        }
        "C12" => {
            let mut run = Run::new(prop, tier, "fault_enumeration");
            crate::ftamper::part_c12(&mut run, tier);
            // the same layers over histories: ciphertexts made once are decrypted again, on the
            // same instance, after every rekey / prune / deletion / refresh
            histex_part(&mut run, tier, &[hp("pke", 3, 4)], &["C12."], HX);
            run.finish()
        }
        "C13" => {
            let mut run = Run::new(prop, tier, "model_checking");
            histex_part(&mut run, tier, &[hp("hyb", 4, 5), hp("trace", 3, 4), hp("edit", 3, 4), hp("rt", 4, 5)], &["C13."], HX);
            crate::fixtures::report(&mut run);
            crate::fixtures::big_roundtrip(&mut run);
            run.finish()
        }
        "C14" => crate::fparse::check(prop, tier),
        "C15" => crate::parsex::check(prop, tier),
        "C16" => crate::seqfresh::check(prop, tier),
        "C17" => {
            let mut run = Run::new(prop, tier, "model_checking");
            histex_part(&mut run, tier, &[hp("trace", 4, 6), hp("rot", 3, 4)], &["C17."], HX);
            crate::tracing::bulk(&mut run, if tier == "quick" { 150 } else { 1000 });
            run.finish()
        }
        "C18" => histex_check(prop, tier, &[hp("recapshyb", 4, 5), hp("recapsrt", 4, 6), hp("recaps", 3, 5)], &["C18."], HX),
        "C19" => crate::sched::check(prop, tier),
        _ => machinery(&format!("no check for {prop}")),
    }
}

pub fn replay(path: &str) -> i32 {
    let v = read_json(std::path::Path::new(path));
    match v["engine"].as_str() {
        Some("histex") => {
            let ops: Vec<String> = v["ops"].as_array().map(|a| a.iter().filter_map(|x| x.as_str().map(str::to_string)).collect()).unwrap_or_default();
            let fails = histex::replay(v["family"].as_str().unwrap_or(""), &ops);
            let clause = v["clause"].as_str().unwrap_or("");
            for f in &fails {
                println!("[{}] {}", f.clause, f.msg);
            }
            if fails.iter().any(|f| f.clause == clause) {
                println!("REPRODUCED {clause}");
                1
            } else {
                println!("not reproduced");
                0
            }
        }
        Some("fparse") => match crate::fparse::replay(v["type"].as_str().unwrap_or(""), v["input"].as_str().unwrap_or("")) {
            Some((c, d)) => {
                println!("REPRODUCED {c}: {d}");
                1
            }
            None => {
                println!("not reproduced");
                0
            }
        },
        Some("sched") => {
            let sch: Vec<usize> = v["schedule"].as_array().map(|a| a.iter().filter_map(|x| x.as_u64().map(|n| n as usize)).collect()).unwrap_or_default();
            match crate::sched::replay(v["scenario"].as_str().unwrap_or(""), &sch) {
                Some((c, d)) => {
                    println!("REPRODUCED {c}: {d}");
                    1
                }
                None => {
                    println!("not reproduced");
                    0
                }
            }
        }
        Some("parsex") => {
            let input = v["input"].as_str().or_else(|| v["message"].as_str()).unwrap_or("").to_string();
            std::panic::set_hook(Box::new(|_| {}));
            let r = std::panic::catch_unwind(|| cosmian_cover_crypt::AccessPolicy::parse(&input).map(|p| p.to_dnf()));
            match r {
                Err(_) => {
                    println!("REPRODUCED C15.a: AccessPolicy::parse panics on {input:?}");
                    1
                }
                Ok(r) => {
                    println!("parse({input:?}) = {:?}; formula-level clauses are replayed by re-running the check", r.map(|d| d.len()));
                    run_check(v["property"].as_str().unwrap_or("C15"), "quick")
                }
            }
        }
        Some("polmat") => {
            let want = v["structure"].as_str().unwrap_or("");
            let clause = v["clause"].as_str().unwrap_or("");
            for thorough in [false, true] {
                if let Some(spec) = crate::polmat::enumerate_structures(thorough).into_iter().find(|s| s.describe() == want) {
                    let st = crate::polmat::run_structure(&spec, thorough);
                    for (c, m) in &st.failures {
                        println!("[{c}] {m}");
                    }
                    return if st.failures.iter().any(|(c, _)| c == clause) {
                        println!("REPRODUCED {clause}");
                        1
                    } else {
                        println!("not reproduced");
                        0
                    };
                }
            }
            machinery("structure of the replay file is not in the enumerated family")
        }
        Some(other) => {
            // malle / forge / dem / seqfresh / fixtures: the case lives inside a run (it needs the
            // keys of that run); these engines are deterministic enumerations, so the replay is
            // the check itself
            println!("engine {other}: replaying by re-running the check");
            run_check(v["property"].as_str().unwrap_or_else(|| machinery("replay file has no property")), "quick")
        }
        None => machinery("replay file has no engine"),
    }
}
