//! Shared plumbing: evidence files, known findings, replay files, worker pool, hashing.

use serde_json::{json, Map, Value};
use std::collections::BTreeMap;
use std::path::{Path, PathBuf};
use std::time::Instant;
use tiny_keccak::{Hasher, Sha3};

pub fn verif_dir() -> PathBuf {
    std::env::var("VERIF_DIR").map(PathBuf::from).unwrap_or_else(|_| PathBuf::from("/verif"))
}

pub fn hash128(s: &[u8]) -> u128 {
    let mut h = Sha3::v256();
    h.update(s);
    let mut out = [0u8; 32];
    h.finalize(&mut out);
    u128::from_le_bytes(out[..16].try_into().unwrap())
}

pub fn nworkers() -> usize {
    std::env::var("VERIF_JOBS").ok().and_then(|s| s.parse().ok()).unwrap_or_else(|| std::thread::available_parallelism().map(|n| n.get()).unwrap_or(8))
}

/// Order-preserving parallel map over `items` with a shared work counter.
pub fn par_map<T: Sync, R: Send>(items: &[T], f: impl Fn(usize, &T) -> R + Sync) -> Vec<R> {
    use std::sync::atomic::{AtomicUsize, Ordering};
    let n = items.len();
    let next = AtomicUsize::new(0);
    let workers = nworkers().min(n.max(1));
    let mut slots: Vec<Option<R>> = (0..n).map(|_| None).collect();
    let results = std::sync::Mutex::new(Vec::<(usize, R)>::new());
    std::thread::scope(|s| {
        for _ in 0..workers {
            s.spawn(|| {
                let mut local = vec![];
                loop {
                    let i = next.fetch_add(1, Ordering::Relaxed);
                    if i >= n {
                        break;
                    }
                    local.push((i, f(i, &items[i])));
                }
                results.lock().unwrap().extend(local);
            });
        }
    });
    for (i, r) in results.into_inner().unwrap() {
        slots[i] = Some(r);
    }
    slots.into_iter().map(|o| o.expect("all computed")).collect()
}

// ---------------------------------------------------------------------------------------

#[derive(Clone, Debug)]
pub struct OpenFinding {
    pub property: String,
    pub id: String,
    pub what: String,
}

pub struct Findings {
    pub open: Vec<OpenFinding>,
}

impl Findings {
    pub fn load() -> Findings {
        let p = verif_dir().join("known_findings.json");
        let mut open = vec![];
        if let Ok(s) = std::fs::read_to_string(&p) {
            let v: Value = serde_json::from_str(&s).unwrap_or_else(|e| machinery(&format!("known_findings.json: {e}")));
            for o in v["open"].as_array().cloned().unwrap_or_default() {
                open.push(OpenFinding {
                    property: o["property"].as_str().unwrap_or("").to_string(),
                    id: o["id"].as_str().unwrap_or("").to_string(),
                    what: o["what"].as_str().unwrap_or("").to_string(),
                });
            }
        }
        Findings { open }
    }
    pub fn is_open(&self, id: &str) -> Option<&OpenFinding> {
        self.open.iter().find(|f| f.id == id)
    }
}

/// Machinery failure: never a verdict.
pub fn machinery(msg: &str) -> ! {
    eprintln!("MACHINERY-ERROR: {msg}");
    std::process::exit(2);
}

// ---------------------------------------------------------------------------------------

pub struct Run {
    pub property: String,
    pub tier: String,
    pub seed: u64,
    pub level: &'static str,
    pub start: Instant,
    pub coverage: Map<String, Value>,
    pub assumptions: Vec<String>,
    pub violations: Vec<(String, PathBuf)>,
    pub known: BTreeMap<String, String>,
    pub findings: Findings,
}

impl Run {
    pub fn new(property: &str, tier: &str, level: &'static str) -> Run {
        let seed = std::env::var("VERIF_SEED").ok().and_then(|s| s.parse().ok()).unwrap_or(0);
        Run {
            property: property.to_string(),
            tier: tier.to_string(),
            seed,
            level,
            start: Instant::now(),
            coverage: Map::new(),
            assumptions: vec![],
            violations: vec![],
            known: BTreeMap::new(),
            findings: Findings::load(),
        }
    }

    pub fn set(&mut self, k: &str, v: Value) {
        self.coverage.insert(k.to_string(), v);
    }
    pub fn add(&mut self, k: &str, n: u64) {
        let cur = self.coverage.get(k).and_then(Value::as_u64).unwrap_or(0);
        self.coverage.insert(k.to_string(), json!(cur + n));
    }
    pub fn sample(&mut self, v: Value) {
        let arr = self.coverage.entry("samples".to_string()).or_insert_with(|| json!([]));
        if let Some(a) = arr.as_array_mut() {
            if a.len() < 12 {
                a.push(v);
            }
        }
    }
    pub fn assume(&mut self, s: &str) {
        if !self.assumptions.iter().any(|a| a == s) {
            self.assumptions.push(s.to_string());
        }
    }

    /// Records a violation: either a listed open finding (KNOWN-FINDING, no effect on the exit
    /// code) or a VIOLATION with a replay file.
    pub fn report(&mut self, finding_id: Option<&str>, clause: &str, msg: &str, replay: Value) {
        if let Some(id) = finding_id {
            if let Some(f) = self.findings.is_open(id) {
                if f.property == self.property || true {
                    self.known.entry(id.to_string()).or_insert_with(|| format!("{} ({})", f.what, msg));
                    return;
                }
            }
        }
        let dir = verif_dir().join("replays");
        let _ = std::fs::create_dir_all(&dir);
        let mut body = replay;
        body["property"] = json!(self.property);
        body["clause"] = json!(clause);
        body["message"] = json!(msg);
        let text = serde_json::to_string_pretty(&body).unwrap();
        let h = hash128(text.as_bytes());
        let path = dir.join(format!("{}-{:016x}.json", self.property, (h >> 64) as u64));
        if self.violations.len() < 20 {
            let _ = std::fs::write(&path, text);
            println!("violation detail: [{clause}] {msg}");
            self.violations.push((clause.to_string(), path));
        }
    }

    /// Writes the evidence file, prints the verdict lines and returns the exit code.
    pub fn finish(mut self) -> i32 {
        let wall = self.start.elapsed().as_secs_f64();
        for (id, what) in &self.known {
            println!("KNOWN-FINDING: property={} {id}: {what}", self.property);
        }
        let nviol = self.violations.len();
        // thorough tier: the run of the second cryptographic configuration (made just before
        // by bin/check) is embedded
        if !is_sub() {
            let sub = verif_dir().join("evidence").join(format!(".{}.B.json", self.property));
            if let Ok(text) = std::fs::read_to_string(&sub) {
                if let Ok(v) = serde_json::from_str::<Value>(&text) {
                    self.coverage.insert("second_configuration".into(), json!({"config": "B(p256+mlkem768)", "coverage": v["coverage"], "wall_s": v["wall_s"], "violations": v["violations"]}));
                }
                let _ = std::fs::remove_file(&sub);
            }
        }
        self.coverage.insert("config".into(), json!(crate::wire::NAME));
        self.coverage.insert("known_findings_seen".into(), json!(self.known.keys().collect::<Vec<_>>()));
        let ev = json!({
            "property_id": self.property,
            "tier": self.tier,
            "seed": self.seed,
            "level": self.level,
            "coverage": Value::Object(self.coverage.clone()),
            "assumptions": self.assumptions,
            "wall_s": wall,
            "violations": nviol,
        });
        let dir = verif_dir().join("evidence");
        let _ = std::fs::create_dir_all(&dir);
        let path = if is_sub() { dir.join(format!(".{}.B.json", self.property)) } else { dir.join(format!("{}.json", self.property)) };
        std::fs::write(&path, serde_json::to_string_pretty(&ev).unwrap()).unwrap_or_else(|e| machinery(&format!("cannot write evidence: {e}")));
        for (_, p) in &self.violations {
            println!("VIOLATION property={} replay={}", self.property, p.display());
        }
        println!("{} {}: {} in {:.1}s, evidence {}", self.property, self.tier, if nviol == 0 { "held" } else { "VIOLATED" }, wall, path.display());
        if nviol == 0 {
            0
        } else {
            1
        }
    }
}

pub fn is_sub() -> bool {
    std::env::var("VERIF_SUB").is_ok()
}

pub fn read_json(p: &Path) -> Value {
    let s = std::fs::read_to_string(p).unwrap_or_else(|e| machinery(&format!("{}: {e}", p.display())));
    serde_json::from_str(&s).unwrap_or_else(|e| machinery(&format!("{}: {e}", p.display())))
}
