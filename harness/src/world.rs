//! A world = real cover_crypt objects + the reference model, advanced in lock-step by an
//! interpreter of public-API operations. After every operation the implementation's state is
//! read back by decoding `serialize()` of the real objects (wire.rs) and compared with the
//! model; every disagreement is a *clause failure* tagged with the property it belongs to.

use std::collections::{BTreeMap, BTreeSet, HashMap};
use std::fmt;
use std::panic::{catch_unwind, AssertUnwindSafe};

use cosmian_cover_crypt::{
    api::Covercrypt,
    traits::{KemAc, PkeAc},
    AccessPolicy, EncryptionHint, MasterPublicKey, MasterSecretKey,
    QualifiedAttribute, UserSecretKey, XEnc,
};
use cosmian_crypto_core::{bytes_ser_de::Serializable, Aes256Gcm};

use crate::model::*;
use crate::wire::{self, WMpk, WMsk, WRsk, WUsk};

#[derive(Clone, Debug, PartialEq, Eq, Hash, PartialOrd, Ord)]
pub enum Op {
    AddDim { name: String, ordered: bool },
    DelDim { name: String },
    AddAttr { dim: String, name: String, hybrid: bool, after: Option<String> },
    DelAttr { dim: String, name: String },
    Rename { dim: String, name: String, new: String },
    Disable { dim: String, name: String },
    Update,
    Rekey(String),
    Prune(String),
    Keygen(String),
    Refresh { k: usize, keep: bool },
    /// replace the master key by its deserialised serialisation
    RtMsk,
    RtUsk(usize),
    /// replace published public key j by its deserialised serialisation
    RtMpk(usize),
    /// re-derive the public key from the master key (publishes it)
    Rederive,
    /// remember the serialised master key (and the model)
    Snapshot,
    /// go back to the remembered master key
    Restore,
}

impl fmt::Display for Op {
    fn fmt(&self, f: &mut fmt::Formatter<'_>) -> fmt::Result {
        match self {
            Op::AddDim { name, ordered } => write!(f, "add-dim {name} {}", if *ordered { "hierarchy" } else { "anarchy" }),
            Op::DelDim { name } => write!(f, "del-dim {name}"),
            Op::AddAttr { dim, name, hybrid, after } => write!(
                f,
                "add {dim}::{name} {}{}",
                if *hybrid { "hybrid" } else { "classic" },
                after.as_ref().map(|a| format!(" after {a}")).unwrap_or_default()
            ),
            Op::DelAttr { dim, name } => write!(f, "del {dim}::{name}"),
            Op::Rename { dim, name, new } => write!(f, "rename {dim}::{name} {new}"),
            Op::Disable { dim, name } => write!(f, "disable {dim}::{name}"),
            Op::Update => write!(f, "update"),
            Op::Rekey(p) => write!(f, "rekey {p}"),
            Op::Prune(p) => write!(f, "prune {p}"),
            Op::Keygen(p) => write!(f, "keygen {p}"),
            Op::Refresh { k, keep } => write!(f, "refresh {k} {}", if *keep { "keep" } else { "drop" }),
            Op::RtMsk => write!(f, "rt-msk"),
            Op::RtUsk(k) => write!(f, "rt-usk {k}"),
            Op::RtMpk(j) => write!(f, "rt-mpk {j}"),
            Op::Rederive => write!(f, "rederive"),
            Op::Snapshot => write!(f, "snapshot"),
            Op::Restore => write!(f, "restore"),
        }
    }
}

impl Op {
    pub fn parse(s: &str) -> Result<Op, String> {
        let s = s.trim();
        let (head, rest) = s.split_once(' ').unwrap_or((s, ""));
        let rest = rest.trim();
        let qa = |t: &str| -> Result<(String, String), String> {
            t.split_once("::").map(|(d, n)| (d.to_string(), n.to_string())).ok_or(format!("bad attribute {t}"))
        };
        Ok(match head {
            "add-dim" => {
                let (n, k) = rest.split_once(' ').ok_or("add-dim")?;
                Op::AddDim { name: n.to_string(), ordered: k == "hierarchy" }
            }
            "del-dim" => Op::DelDim { name: rest.to_string() },
            "add" => {
                let mut it = rest.split(' ');
                let (dim, name) = qa(it.next().ok_or("add")?)?;
                let hybrid = it.next() == Some("hybrid");
                let after = if it.next() == Some("after") { it.next().map(str::to_string) } else { None };
                Op::AddAttr { dim, name, hybrid, after }
            }
            "del" => {
                let (dim, name) = qa(rest)?;
                Op::DelAttr { dim, name }
            }
            "rename" => {
                let (a, new) = rest.split_once(' ').ok_or("rename")?;
                let (dim, name) = qa(a)?;
                Op::Rename { dim, name, new: new.to_string() }
            }
            "disable" => {
                let (dim, name) = qa(rest)?;
                Op::Disable { dim, name }
            }
            "update" => Op::Update,
            "rekey" => Op::Rekey(rest.to_string()),
            "prune" => Op::Prune(rest.to_string()),
            "keygen" => Op::Keygen(rest.to_string()),
            "refresh" => {
                let (k, f) = rest.split_once(' ').ok_or("refresh")?;
                Op::Refresh { k: k.parse().map_err(|_| "refresh k")?, keep: f == "keep" }
            }
            "rt-msk" => Op::RtMsk,
            "rt-usk" => Op::RtUsk(rest.parse().map_err(|_| "rt-usk")?),
            "rt-mpk" => Op::RtMpk(rest.parse().map_err(|_| "rt-mpk")?),
            "rederive" => Op::Rederive,
            "snapshot" => Op::Snapshot,
            "restore" => Op::Restore,
            _ => return Err(format!("unknown op {s}")),
        })
    }
    pub fn is_rt(&self) -> bool {
        matches!(self, Op::RtMsk | Op::RtUsk(_) | Op::RtMpk(_) | Op::Restore)
    }
}

#[derive(Clone, Debug, PartialEq, Eq, PartialOrd, Ord)]
pub struct Failure {
    pub clause: String,
    pub msg: String,
}

pub struct MpkEntry {
    pub mpk: MasterPublicKey,
    pub model: MpkM,
    pub roundtripped: bool,
}

pub struct UskEntry {
    pub usk: UserSecretKey,
    pub model: UskM,
    /// id known to the current master key
    pub known: bool,
    pub roundtripped: bool,
    pub policy: String,
}

pub struct EncEntry {
    pub enc: XEnc,
    pub secret: Vec<u8>,
    pub model: EncM,
    pub mpk: usize,
    pub policy: String,
}

/// A key must keep its identifier and tracing points whatever happens to it short of a successful
/// refresh: says what changed between two serialisations of one key object, if anything did.
pub fn tracing_part_changed(before: &[u8], after: &[u8]) -> Option<String> {
    let b = WUsk::decode(before).ok()?;
    match WUsk::decode(after) {
        Err(_) => Some("the key no longer has the layout of a user key".into()),
        Ok(a) => {
            if a.id != b.id {
                Some(format!("the key lost its identifier ({} markers before, {} after)", b.id.len(), a.id.len()))
            } else if a.ps != b.ps {
                Some("the tracing points of the key were replaced".into())
            } else {
                None
            }
        }
    }
}

/// How thoroughly an operation is checked.
#[derive(Clone, Copy, PartialEq, Eq, Debug)]
pub enum Mode {
    /// replaying a prefix: execute + lock-step binding only
    Replay,
    /// the transition under test: all observers
    Check,
}

/// Tags for the clauses whose owner depends on the family being explored.
#[derive(Clone, Debug)]
pub struct Tags {
    /// authorised key must open
    pub open: &'static str,
    /// unauthorised key must not open
    pub deny: &'static str,
}

pub struct World {
    pub cc: Covercrypt,
    pub msk: MasterSecretKey,
    pub msk_roundtripped: bool,
    pub model: Model,
    pub mpks: Vec<MpkEntry>,
    pub usks: Vec<UskEntry>,
    pub snapshot: Option<(Vec<u8>, Model, Vec<bool>)>,
    /// token -> implementation id observed when the attribute was created
    pub tok_id: BTreeMap<Tok, u64>,
    /// version -> secret bytes observed when the version was created
    pub ver_key: BTreeMap<Ver, WRsk>,
    pub sk_ver: HashMap<Vec<u8>, Ver>,
    pub enc_menu: Vec<String>,
    pub tags: Tags,
    pub failures: Vec<Failure>,
    /// set when a known open finding has fired in this history
    pub tainted: Option<String>,
    pub counts: BTreeMap<&'static str, u64>,
    pub max_usks: usize,
    pub rt_encs: bool,
    pub full_matrix: bool,
    /// long-lived PKE ciphertexts (made once, under the first structured public key) that are
    /// decrypted again after every operation with the key it touched: the same ciphertext object
    /// meets the same instance before and after the key changes
    pub pke: Vec<PkeEntry>,
    pub pke_probes: bool,
    /// before a checked rekey / prune / keygen, the same policy text is first used on a second
    /// master key ("another tenant": same names, identifiers allocated in another order) through
    /// the same instance: nothing of it may leak into the call under test
    pub tenant_probe: bool,
    /// long-lived encapsulations re-encapsulated after every operation (both modes): a memo of
    /// an earlier re-encapsulation must not decide a later one
    pub recaps_prime: bool,
    pub recaps_longlived: Vec<EncEntry>,
}

pub struct PkeEntry {
    pub policy: String,
    pub model: EncM,
    pub ct: (XEnc, Vec<u8>),
}

pub const PKE_PLAINTEXT: &[u8] = b"long-lived plaintext";

pub fn hint(h: bool) -> EncryptionHint {
    if h {
        EncryptionHint::Hybridized
    } else {
        EncryptionHint::Classic
    }
}

pub fn ser<T: Serializable>(t: &T) -> Vec<u8>
where
    T::Error: fmt::Debug,
{
    t.serialize().expect("serialize").to_vec()
}

macro_rules! guarded {
    ($e:expr) => {
        catch_unwind(AssertUnwindSafe(|| $e))
    };
}

impl World {
    pub fn bump(&mut self, k: &'static str) {
        *self.counts.entry(k).or_insert(0) += 1;
    }
    pub fn fail(&mut self, clause: &str, msg: String) {
        self.failures.push(Failure { clause: clause.to_string(), msg });
    }

    /// Empty world: `setup()` only.
    pub fn new(enc_menu: &[&str], tags: Tags) -> World {
        let cc = Covercrypt::default();
        let (msk, mpk) = cc.setup().expect("setup");
        let mut model = Model::default();
        model.update().expect("model update");
        let mut w = World {
            cc,
            msk,
            msk_roundtripped: false,
            model,
            mpks: vec![],
            usks: vec![],
            snapshot: None,
            tok_id: BTreeMap::new(),
            ver_key: BTreeMap::new(),
            sk_ver: HashMap::new(),
            enc_menu: enc_menu.iter().map(|s| s.to_string()).collect(),
            tags,
            failures: vec![],
            tainted: None,
            counts: BTreeMap::new(),
            max_usks: 3,
            rt_encs: false,
            full_matrix: false,
            pke: vec![],
            pke_probes: false,
            tenant_probe: false,
            recaps_prime: false,
            recaps_longlived: vec![],
        };
        w.observe_msk("setup", &[(vec![], 0)]);
        let m = w.model.mpk();
        w.mpks.push(MpkEntry { mpk, model: m, roundtripped: false });
        w
    }

    // -------------------------------------------------------------------------------
    // reading the implementation's state back

    fn id_tok(&self) -> HashMap<u64, Tok> {
        self.tok_id.iter().map(|(t, i)| (*i, *t)).collect()
    }

    pub fn right_to_model(&self, right: &[u8]) -> Result<RightM, String> {
        let ids = wire::right_ids(right)?;
        let map = self.id_tok();
        let mut r = vec![];
        for i in ids {
            r.push(*map.get(&i).ok_or(format!("right mentions id {i} that no attribute ever had"))?);
        }
        r.sort_unstable();
        Ok(r)
    }

    pub fn right_to_impl(&self, r: &RightM) -> Option<Vec<u8>> {
        let ids: Option<Vec<u64>> = r.iter().map(|t| self.tok_id.get(t).copied()).collect();
        ids.map(|i| wire::ids_right(&i))
    }

    /// Compares the decoded structure with the model's; records ids of new tokens.
    fn observe_structure(&mut self, w: &wire::WStructure, what: &str) {
        let mut fails = vec![];
        let model_dims: Vec<&String> = self.model.st.dims.keys().collect();
        let impl_dims: Vec<&String> = w.dims.keys().collect();
        if model_dims != impl_dims {
            fails.push(("C03.s", format!("{what}: dimensions {impl_dims:?}, expected {model_dims:?}")));
        }
        let mut new_ids = vec![];
        for (dn, d) in &self.model.st.dims {
            let Some(wd) = w.dims.get(dn) else { continue };
            if wd.ordered != d.ordered {
                fails.push(("C03.s", format!("{what}: dimension {dn} ordered={} expected {}", wd.ordered, d.ordered)));
            }
            let mut want: Vec<&AttrM> = d.attrs.iter().collect();
            if !d.ordered {
                want.sort_by(|a, b| a.name.cmp(&b.name));
            }
            let got_names: Vec<&String> = wd.attrs.iter().map(|a| &a.name).collect();
            let want_names: Vec<&String> = want.iter().map(|a| &a.name).collect();
            if got_names != want_names {
                fails.push(("C03.s", format!("{what}: dimension {dn} holds {got_names:?}, expected {want_names:?} (rank order)")));
                continue;
            }
            for (wa, a) in wd.attrs.iter().zip(want) {
                if wa.hybrid != a.hybrid {
                    fails.push(("C11.s", format!("{what}: {dn}::{} hint hybrid={} expected {}", a.name, wa.hybrid, a.hybrid)));
                }
                if wa.enabled == a.disabled {
                    fails.push(("C06.s", format!("{what}: {dn}::{} enabled={} expected {}", a.name, wa.enabled, !a.disabled)));
                }
                match self.tok_id.get(&a.tok) {
                    Some(id) if *id != wa.id => fails.push(("C03.b", format!("{what}: {dn}::{} changed id {id} -> {}", a.name, wa.id))),
                    Some(_) => {}
                    None => new_ids.push((a.tok, wa.id, format!("{dn}::{}", a.name))),
                }
            }
        }
        for (tok, id, name) in new_ids {
            let clash = self.tok_id.iter().find(|(_, i)| **i == id).map(|(t, _)| *t);
            if let Some(other) = clash {
                let live = self.model.st.tok_attr(other).map(|(d, a)| format!("live {d}::{}", a.name));
                fails.push(("C03.b", format!("{what}: new attribute {name} received id {id}, the id of {}", live.clone().unwrap_or("a deleted attribute".to_string()))));
                if live.is_none() {
                    // the listed finding (id of a DELETED attribute handed out again): from here on
                    // the implementation treats the new attribute as the continuation of the
                    // deleted one. The model follows it - the new attribute takes over the old
                    // token - so that every other property can still be checked in these histories.
                    for d in self.model.st.dims.values_mut() {
                        for a in d.attrs.iter_mut() {
                            if a.tok == tok {
                                a.tok = other;
                            }
                        }
                    }
                    continue;
                }
            }
            self.tok_id.insert(tok, id);
        }
        for (c, m) in fails {
            self.fail(c, m);
        }
    }

    /// Decodes the master key and compares it with the model. `created` lists the versions the
    /// model says this operation created (their bytes are bound now).
    pub fn observe_msk(&mut self, op: &str, created: &[(RightM, Ver)]) -> Option<WMsk> {
        let bytes = ser(&self.msk);
        let w = match WMsk::decode(&bytes) {
            Ok(w) => w,
            Err(e) => {
                self.fail("C13.w", format!("after {op}: the master key does not decode with the pinned layout: {e}"));
                return None;
            }
        };
        self.observe_structure(&w.structure, &format!("after {op}"));
        let side = match op.split(' ').next().unwrap_or("") {
            "rekey" => "C04.r",
            "prune" => "C05.d",
            "update" | "setup" => "C03.u",
            _ => "C09.s",
        };
        // rights
        let mut seen = BTreeSet::new();
        for (rb, chain) in &w.rights {
            let r = match self.right_to_model(rb) {
                Ok(r) => r,
                Err(e) => {
                    self.fail(side, format!("after {op}: master key right {}: {e}", wire::hex(rb)));
                    continue;
                }
            };
            seen.insert(r.clone());
            let Some(mchain) = self.model.master.get(&r).cloned() else {
                let c = if op.starts_with("update") { "C05.u" } else { side };
                self.fail(c, format!("after {op}: master key holds right {} which it should not hold", self.show_right(&r)));
                continue;
            };
            if mchain.len() != chain.len() {
                self.fail(side, format!("after {op}: chain of {} has {} secrets, expected {}", self.show_right(&r), chain.len(), mchain.len()));
                continue;
            }
            for (i, ((act, key), m)) in chain.iter().zip(&mchain).enumerate() {
                // only the newest secret decides whether the right is published; the flags of
                // older secrets are internal and not compared
                if i == 0 && *act != m.activated {
                    self.fail("C06.f", format!("after {op}: newest secret of {} activated={act}, expected {}", self.show_right(&r), m.activated));
                }
                if key.hybrid() != m.hybrid {
                    self.fail("C11.a", format!("after {op}: secret #{i} of {} hybrid={}, expected {}", self.show_right(&r), key.hybrid(), m.hybrid));
                }
                if created.iter().any(|(cr, cv)| cr == &r && *cv == m.ver) {
                    if let Some(prev) = self.sk_ver.get(&key.sk) {
                        if *prev != m.ver {
                            self.fail("C16.d", format!("after {op}: new secret of {} equals an earlier secret (version {prev})", self.show_right(&r)));
                        }
                    }
                    self.ver_key.insert(m.ver, key.clone());
                    self.sk_ver.insert(key.sk.clone(), m.ver);
                } else {
                    match self.ver_key.get(&m.ver) {
                        Some(k) if k.sk == key.sk => {
                            if k.dk != key.dk && m.hybrid == k.hybrid() {
                                self.fail("C11.a", format!("after {op}: ML-KEM key of secret #{i} of {} changed", self.show_right(&r)));
                            } else if k.dk != key.dk && key.hybrid() == m.hybrid {
                                // the model agrees that this secret changed flavour (an update
                                // dropped its hybridization): the binding follows
                                self.ver_key.insert(m.ver, key.clone());
                            }
                        }
                        Some(_) => self.fail(side, format!("after {op}: secret #{i} of {} is not the secret that was there before", self.show_right(&r))),
                        None => {
                            // first observation (restore): bind
                            self.ver_key.insert(m.ver, key.clone());
                            self.sk_ver.insert(key.sk.clone(), m.ver);
                        }
                    }
                }
            }
        }
        let missing: Vec<RightM> = self.model.master.keys().filter(|r| !seen.contains(*r)).cloned().collect();
        for r in missing {
            self.fail(side, format!("after {op}: master key lacks right {}", self.show_right(&r)));
        }
        if w.signing_key.is_none() {
            self.fail("C13.w", format!("after {op}: master key has no signing key"));
        }
        if w.users.len() != self.model.registered {
            self.fail("C17.a", format!("after {op}: master key knows {} user ids, expected {}", w.users.len(), self.model.registered));
        }
        Some(w)
    }

    pub fn show_right(&self, r: &RightM) -> String {
        let names: Vec<String> = r
            .iter()
            .map(|t| match self.model.st.tok_attr(*t) {
                Some((d, a)) => format!("{d}::{}", a.name),
                None => format!("<deleted #{t}>"),
            })
            .collect();
        format!("{{{}}}", names.join(","))
    }

    /// Decodes user key k into right -> versions (None for a secret unknown to the model).
    pub fn decode_usk(&mut self, k: usize, what: &str) -> Option<(WUsk, BTreeMap<RightM, Vec<Option<Ver>>>)> {
        let bytes = ser(&self.usks[k].usk);
        let w = match WUsk::decode(&bytes) {
            Ok(w) => w,
            Err(e) => {
                self.fail("C13.w", format!("{what}: user key {k} does not decode with the pinned layout: {e}"));
                return None;
            }
        };
        let mut out = BTreeMap::new();
        let mut classic = BTreeSet::new();
        for (rb, chain) in &w.chains {
            let r = match self.right_to_model(rb) {
                Ok(r) => r,
                Err(e) => {
                    self.fail("C03.k", format!("{what}: user key {k} right {}: {e}", wire::hex(rb)));
                    continue;
                }
            };
            let vs: Vec<Option<Ver>> = chain.iter().map(|s| self.sk_ver.get(&s.sk).copied()).collect();
            for (s, v) in chain.iter().zip(&vs) {
                if let Some(v) = v {
                    let want = &self.ver_key[v];
                    if want.hybrid() != s.hybrid() || want.dk != s.dk {
                        let msg = format!("{what}: user key {k} holds secret of {} with hybrid={}, the master secret has hybrid={}", self.show_right(&r), s.hybrid(), want.hybrid());
                        self.fail("C11.c", msg);
                    }
                }
            }
            for (sec, v) in chain.iter().zip(&vs) {
                if let (Some(v), false) = (v, sec.hybrid()) {
                    classic.insert((r.clone(), *v));
                }
            }
            if out.insert(r.clone(), vs).is_some() {
                let msg = format!("{what}: user key {k} has two chains for {}", self.show_right(&r));
                self.fail("C03.k", msg);
            }
        }
        self.usks[k].model.classic = classic;
        Some((w, out))
    }

    // -------------------------------------------------------------------------------
    // the interpreter

    pub fn enabled(&self, op: &Op) -> bool {
        match op {
            Op::Keygen(_) => self.usks.len() < self.max_usks,
            Op::Refresh { k, .. } | Op::RtUsk(k) => *k < self.usks.len(),
            Op::RtMpk(j) => *j < self.mpks.len(),
            Op::Restore => self.snapshot.is_some(),
            Op::Snapshot => self.snapshot.is_none(),
            _ => true,
        }
    }

    fn qa(dim: &str, name: &str) -> QualifiedAttribute {
        QualifiedAttribute::new(dim, name)
    }

    fn parse_policy(&mut self, p: &str) -> Option<AccessPolicy> {
        match guarded!(AccessPolicy::parse(p)) {
            Ok(Ok(ap)) => Some(ap),
            Ok(Err(e)) => {
                self.fail("C15.b", format!("menu policy {p:?} does not parse: {e}"));
                None
            }
            Err(_) => {
                self.fail("C15.a", format!("parser panicked on menu policy {p:?}"));
                None
            }
        }
    }

    /// Class of a result for the contract comparison.
    fn class<T, E: fmt::Display>(&mut self, op: &Op, expected_ok: bool, res: &std::thread::Result<Result<T, E>>) -> bool {
        match res {
            Err(_) => {
                self.fail("C09.p", format!("{op}: panicked"));
                false
            }
            Ok(Ok(_)) => {
                if !expected_ok {
                    self.fail("C09.e", format!("{op}: returned Ok, the contract says Err"));
                }
                true
            }
            Ok(Err(e)) => {
                if expected_ok {
                    self.fail("C09.o", format!("{op}: returned Err({e}), the contract says Ok"));
                }
                false
            }
        }
    }

    /// Executes one operation on the real objects and on the model; returns whether the
    /// implementation returned Ok.
    /// Uses `policy` on a second master key with the same names but another id layout.
    fn tenant_interference(&mut self, policy: &str) {
        let Ok((mut other, _)) = self.cc.setup() else { return };
        let st = self.model.st.clone();
        for (dn, d) in st.dims.iter().rev() {
            let _ = if d.ordered { other.access_structure.add_hierarchy(dn.clone()) } else { other.access_structure.add_anarchy(dn.clone()) };
            // highest rank first, each inserted at the bottom: same ranks, reversed identifiers
            for a in d.attrs.iter().rev() {
                let _ = other.access_structure.add_attribute(Self::qa(dn, &a.name), hint(a.hybrid), None);
            }
        }
        if self.cc.update_msk(&mut other).is_err() {
            return;
        }
        let Ok(ap) = AccessPolicy::parse(policy) else { return };
        let _ = guarded!(self.cc.rekey(&mut other, &ap));
        let _ = guarded!(self.cc.generate_user_secret_key(&mut other, &ap));
        let _ = guarded!(self.cc.prune_master_secret_key(&mut other, &ap));
        if let Ok(Ok(mpk)) = guarded!(other.mpk()) {
            let _ = guarded!(self.cc.encaps(&mpk, &ap));
            let _ = guarded!(PkeAc::<{ Aes256Gcm::KEY_LENGTH }, Aes256Gcm>::encrypt(&self.cc, &mpk, &ap, PKE_PLAINTEXT));
            let _ = guarded!(cosmian_cover_crypt::EncryptedHeader::generate(&self.cc, &mpk, &ap, Some(b"m"), None));
        }
        self.bump("tenant_interferences");
    }

    /// Right before a checked `update`, another master key with the same dimension names, the
    /// same attribute ids and statuses but the OPPOSITE hints is updated through the same
    /// instance: nothing of it may leak into the update under test.
    fn tenant_update_interference(&mut self) {
        let Ok((mut other, _)) = self.cc.setup() else { return };
        let st = self.model.st.clone();
        let mut attrs: Vec<(u64, String, bool, AttrM)> = vec![];
        for (dn, d) in &st.dims {
            let _ = if d.ordered { other.access_structure.add_hierarchy(dn.clone()) } else { other.access_structure.add_anarchy(dn.clone()) };
            for a in &d.attrs {
                if let Some(id) = self.tok_id.get(&a.tok) {
                    attrs.push((*id, dn.clone(), d.ordered, a.clone()));
                }
            }
        }
        attrs.sort_by_key(|a| a.0);
        for (_, dn, _, a) in &attrs {
            // creation in id order reproduces the ids when there are no gaps; rank order inside a
            // hierarchy does not matter for this purpose
            let _ = other.access_structure.add_attribute(Self::qa(dn, &a.name), hint(!a.hybrid), None);
            if a.disabled {
                let _ = other.access_structure.disable_attribute(&Self::qa(dn, &a.name));
            }
        }
        let _ = guarded!(self.cc.update_msk(&mut other));
        self.bump("tenant_interferences");
    }

    pub fn apply(&mut self, op: &Op, mode: Mode) -> bool {
        self.bump("ops");
        if mode == Mode::Check && self.tenant_probe {
            if let Op::Rekey(p) | Op::Prune(p) | Op::Keygen(p) = op {
                self.tenant_interference(p);
            }
            if matches!(op, Op::Update) {
                self.tenant_update_interference();
            }
        }
        let before_msk = ser(&self.msk);
        let before_usk: Option<Vec<u8>> = match op {
            Op::Refresh { k, .. } => Some(ser(&self.usks[*k].usk)),
            _ => None,
        };
        let opname = op.to_string();
        let mut created: Vec<(RightM, Ver)> = vec![];
        let mut new_mpk: Option<MasterPublicKey> = None;
        let mut touched_usk: Option<usize> = None;
        let mut touched_msk = true;
        let ok;
        match op {
            Op::AddDim { name, ordered } => {
                let m = self.model.add_dim(name, *ordered);
                let r = guarded!(if *ordered { self.msk.access_structure.add_hierarchy(name.clone()) } else { self.msk.access_structure.add_anarchy(name.clone()) });
                ok = self.class(op, m.is_ok(), &r);
            }
            Op::DelDim { name } => {
                let m = self.model.del_dim(name);
                let r = guarded!(self.msk.access_structure.del_dimension(name));
                ok = self.class(op, m.is_ok(), &r);
            }
            Op::AddAttr { dim, name, hybrid, after } => {
                let m = self.model.add_attr(dim, name, *hybrid, after.as_deref());
                let r = guarded!(self.msk.access_structure.add_attribute(Self::qa(dim, name), hint(*hybrid), after.as_deref()));
                ok = self.class(op, m.is_ok(), &r);
            }
            Op::DelAttr { dim, name } => {
                let m = self.model.del_attr(dim, name);
                let r = guarded!(self.msk.access_structure.del_attribute(&Self::qa(dim, name)));
                ok = self.class(op, m.is_ok(), &r);
            }
            Op::Rename { dim, name, new } => {
                let m = self.model.rename(dim, name, new);
                let r = guarded!(self.msk.access_structure.rename_attribute(&Self::qa(dim, name), new.clone()));
                ok = self.class(op, m.is_ok(), &r);
            }
            Op::Disable { dim, name } => {
                let m = self.model.disable(dim, name);
                let r = guarded!(self.msk.access_structure.disable_attribute(&Self::qa(dim, name)));
                ok = self.class(op, m.is_ok(), &r);
            }
            Op::Update => {
                let m = self.model.update();
                let r = guarded!(self.cc.update_msk(&mut self.msk));
                ok = self.class(op, m.is_ok(), &r);
                if let Ok(c) = m {
                    created = c;
                }
                if let Ok(Ok(mpk)) = r {
                    new_mpk = Some(mpk);
                }
            }
            Op::Rekey(p) => {
                let Some(ap) = self.parse_policy(p) else { return false };
                let m = self.model.rekey(&parse_dnf(p));
                let r = guarded!(self.cc.rekey(&mut self.msk, &ap));
                ok = self.class(op, m.is_ok(), &r);
                if let Ok(c) = m {
                    created = c;
                }
                if let Ok(Ok(mpk)) = r {
                    new_mpk = Some(mpk);
                }
            }
            Op::Prune(p) => {
                let Some(ap) = self.parse_policy(p) else { return false };
                let m = self.model.prune(&parse_dnf(p));
                let r = guarded!(self.cc.prune_master_secret_key(&mut self.msk, &ap));
                ok = self.class(op, m.is_ok(), &r);
                if let Ok(Ok(mpk)) = r {
                    new_mpk = Some(mpk);
                }
            }
            Op::Keygen(p) => {
                let Some(ap) = self.parse_policy(p) else { return false };
                let m = self.model.keygen(&parse_dnf(p));
                let r = guarded!(self.cc.generate_user_secret_key(&mut self.msk, &ap));
                ok = self.class(op, m.is_ok(), &r);
                if let (Ok(Ok(usk)), Ok(um)) = (r, m) {
                    self.usks.push(UskEntry { usk, model: um, known: true, roundtripped: false, policy: p.clone() });
                    touched_usk = Some(self.usks.len() - 1);
                } else if ok {
                    // implementation issued a key the model refuses: already reported by class()
                    return ok;
                }
            }
            Op::Refresh { k, keep } => {
                let known = self.usks[*k].known;
                let pred = self.model.refresh(&self.usks[*k].model, *keep);
                let usk = &mut self.usks[*k].usk;
                let r = guarded!(self.cc.refresh_usk(&mut self.msk, usk, *keep));
                ok = self.class(op, known, &r);
                if known && !ok {
                    self.fail("C04.f", format!("{op}: an issued key is refused by refresh: it can no longer follow the master key"));
                }
                if !known {
                    if ok {
                        self.fail("C17.f", format!("{op}: a key whose id the master key does not know was refreshed"));
                    }
                } else if ok {
                    touched_usk = Some(*k);
                    self.check_refreshed(*k, *keep, &pred, &opname);
                }
            }
            Op::RtMsk => {
                let bytes = ser(&self.msk);
                match guarded!(MasterSecretKey::deserialize(&bytes)) {
                    Ok(Ok(m)) => {
                        if m != self.msk {
                            self.fail("C13.e", "rt-msk: deserialised master key differs from the original".to_string());
                        }
                        self.msk = m;
                        self.msk_roundtripped = true;
                        ok = true;
                    }
                    Ok(Err(e)) => {
                        self.fail("C13.d", format!("rt-msk: own serialisation rejected: {e}"));
                        if self.model.st.dims.values().any(|d| d.attrs.iter().any(|a| a.disabled)) {
                            self.fail("C06.r", format!("rt-msk: a master key holding a disabled attribute cannot be reloaded ({e}): no public key can be produced from it after serialisation and no user key refreshed"));
                        }
                        ok = false;
                    }
                    Err(_) => {
                        self.fail("C13.d", "rt-msk: deserialisation panicked".to_string());
                        ok = false;
                    }
                }
            }
            Op::RtUsk(k) => {
                touched_msk = false;
                let bytes = ser(&self.usks[*k].usk);
                match guarded!(UserSecretKey::deserialize(&bytes)) {
                    Ok(Ok(u)) => {
                        if u != self.usks[*k].usk {
                            self.fail("C13.e", format!("rt-usk {k}: deserialised user key differs from the original"));
                        }
                        self.usks[*k].usk = u;
                        self.usks[*k].roundtripped = true;
                        touched_usk = Some(*k);
                        ok = true;
                    }
                    Ok(Err(e)) => {
                        self.fail("C13.d", format!("rt-usk {k}: own serialisation rejected: {e}"));
                        ok = false;
                    }
                    Err(_) => {
                        self.fail("C13.d", format!("rt-usk {k}: deserialisation panicked"));
                        ok = false;
                    }
                }
            }
            Op::RtMpk(j) => {
                touched_msk = false;
                let bytes = ser(&self.mpks[*j].mpk);
                match guarded!(MasterPublicKey::deserialize(&bytes)) {
                    Ok(Ok(m)) => {
                        if m != self.mpks[*j].mpk {
                            self.fail("C13.e", format!("rt-mpk {j}: deserialised public key differs from the original"));
                        }
                        self.mpks[*j].mpk = m;
                        self.mpks[*j].roundtripped = true;
                        ok = true;
                        if mode == Mode::Check {
                            self.check_mpk_object(*j, &opname);
                            let encs = self.menu_under(*j, true);
                            for k in 0..self.usks.len() {
                                self.check_decaps_row(k, &encs);
                            }
                        }
                    }
                    Ok(Err(e)) => {
                        self.fail("C13.d", format!("rt-mpk {j}: own serialisation rejected: {e}"));
                        ok = false;
                    }
                    Err(_) => {
                        self.fail("C13.d", format!("rt-mpk {j}: deserialisation panicked"));
                        ok = false;
                    }
                }
            }
            Op::Rederive => {
                let r = guarded!(self.msk.mpk());
                ok = self.class(op, true, &r);
                if let Ok(Ok(mpk)) = r {
                    new_mpk = Some(mpk);
                }
            }
            Op::Snapshot => {
                self.snapshot = Some((ser(&self.msk), self.model.clone(), self.usks.iter().map(|u| u.known).collect()));
                ok = true;
            }
            Op::Restore => {
                let (bytes, model, known) = self.snapshot.clone().expect("enabled");
                match guarded!(MasterSecretKey::deserialize(&bytes)) {
                    Ok(Ok(m)) => {
                        self.msk = m;
                        self.msk_roundtripped = true;
                        // tokens and versions keep their numbering; only the master state goes back
                        let (nt, nv) = (self.model.next_tok, self.model.next_ver);
                        self.model = model;
                        self.model.next_tok = nt;
                        self.model.next_ver = nv;
                        for (i, u) in self.usks.iter_mut().enumerate() {
                            u.known = known.get(i).copied().unwrap_or(false);
                        }
                        ok = true;
                    }
                    _ => {
                        self.fail("C13.d", "restore: the snapshot does not deserialise".to_string());
                        ok = false;
                    }
                }
            }
        }

        // ---- C10: a failed call leaves both keys untouched --------------------------------
        if !ok {
            let after = ser(&self.msk);
            if after != before_msk && !msk_equal_canon(&before_msk, &after) {
                self.fail("C10.a", format!("{op}: returned Err but the master key changed: {}", msk_diff(&before_msk, &after)));
            }
            if let (Some(b), Op::Refresh { k, .. }) = (&before_usk, op) {
                let a = ser(&self.usks[*k].usk);
                if &a != b {
                    self.fail("C10.b", format!("{op}: returned Err but the user key changed ({} -> {} bytes)", b.len(), a.len()));
                    if let Some(m) = tracing_part_changed(b, &a) {
                        self.fail("C17.g", format!("{op}: refused, {m}"));
                    }
                }
            }
        }

        // The position of the failing right among the processed ones depends on hash order:
        // repeat the failing call (fresh hash sets each time) and compare again.
        if !ok && mode == Mode::Check {
            for round in 0..6 {
                let Some(again) = self.raw_call(op) else { break };
                self.bump("failing_call_repeats");
                if again {
                    self.fail("C09.e", format!("{op}: failed, then succeeded when repeated (round {round})"));
                    break;
                }
                let after = ser(&self.msk);
                if after != before_msk && !msk_equal_canon(&before_msk, &after) {
                    self.fail("C10.a", format!("{op}: returned Err but the master key changed: {}", msk_diff(&before_msk, &after)));
                    break;
                }
                if let (Some(b), Op::Refresh { k, .. }) = (&before_usk, op) {
                    if &ser(&self.usks[*k].usk) != b {
                        self.fail("C10.b", format!("{op}: returned Err but the user key changed"));
                        break;
                    }
                }
            }
        }

        // ---- lock-step: read the master key back ------------------------------------------
        if touched_msk {
            self.observe_msk(&opname, &created);
        }

        // ---- the public key returned by the call ------------------------------------------
        if let Some(mpk) = new_mpk {
            let m = self.model.mpk();
            let existing = self.mpks.iter().position(|e| e.model == m && !e.roundtripped);
            let j = match existing {
                Some(j) => {
                    // same abstract content as a stored key: check the new object, keep the old one
                    if mode == Mode::Check {
                        self.mpks.push(MpkEntry { mpk, model: m, roundtripped: false });
                        let tmp = self.mpks.len() - 1;
                        self.check_mpk_object(tmp, &opname);
                        let _ = self.menu_under(tmp, true);
                        self.mpks.pop();
                    }
                    j
                }
                None => {
                    self.mpks.push(MpkEntry { mpk, model: m, roundtripped: false });
                    let j = self.mpks.len() - 1;
                    if mode == Mode::Check {
                        self.check_mpk_object(j, &opname);
                        let encs = self.menu_under(j, true);
                        for k in 0..self.usks.len() {
                            self.check_decaps_row(k, &encs);
                        }
                    }
                    j
                }
            };
            let _ = j;
        }

        // ---- long-lived PKE ciphertexts (both modes: the instance must see every decryption) ----
        if self.pke_probes {
            if self.pke.is_empty() && self.mpks.len() >= 2 && !self.usks.is_empty() {
                self.pke_init();
            }
            if let Some(k) = touched_usk {
                self.pke_probe(k, mode == Mode::Check);
            }
        }

        // ---- long-lived encapsulations for re-encapsulation (both modes) -----------------------
        if self.recaps_prime {
            if self.recaps_longlived.is_empty() && self.mpks.len() >= 2 {
                self.recaps_longlived = self.menu_under(1, false);
            }
            if mode == Mode::Replay {
                let j = self.mpks.len() - 1;
                for i in 0..self.recaps_longlived.len() {
                    let _ = guarded!(self.cc.recaps(&self.msk, &self.mpks[j].mpk, &self.recaps_longlived[i].enc));
                }
            }
        }
        // ---- fresh PKE encryptions under the newest public key (checked op only) ---------------
        if self.pke_probes && mode == Mode::Check && self.mpks.len() >= 2 {
            self.pke_fresh_probe();
        }

        // ---- the user key touched by the call ---------------------------------------------
        if let Some(k) = touched_usk {
            if matches!(op, Op::Keygen(_)) {
                self.check_issued(k, &opname);
            }
            if mode == Mode::Check {
                self.check_usk_object(k, &opname);
                self.check_refreshable(k, &opname);
                for j in 0..self.mpks.len() {
                    let encs = self.menu_under(j, false);
                    self.check_decaps_row(k, &encs);
                }
            }
        }
        if mode == Mode::Check && self.full_matrix && touched_usk.is_none() {
            for j in 0..self.mpks.len() {
                let encs = self.menu_under(j, false);
                for k in 0..self.usks.len() {
                    self.check_decaps_row(k, &encs);
                }
            }
        }
        if mode == Mode::Check {
            self.check_msk_object(&opname);
        }
        ok
    }

    /// The bare implementation call of a fallible master-key operation (no model step).
    fn raw_call(&mut self, op: &Op) -> Option<bool> {
        let r = match op {
            Op::Update => guarded!(self.cc.update_msk(&mut self.msk).map(|_| ())),
            Op::Rekey(p) => {
                let ap = AccessPolicy::parse(p).ok()?;
                guarded!(self.cc.rekey(&mut self.msk, &ap).map(|_| ()))
            }
            Op::Prune(p) => {
                let ap = AccessPolicy::parse(p).ok()?;
                guarded!(self.cc.prune_master_secret_key(&mut self.msk, &ap).map(|_| ()))
            }
            Op::Keygen(p) => {
                let ap = AccessPolicy::parse(p).ok()?;
                guarded!(self.cc.generate_user_secret_key(&mut self.msk, &ap).map(|_| ()))
            }
            Op::Refresh { k, keep } => {
                let usk = &mut self.usks[*k].usk;
                guarded!(self.cc.refresh_usk(&mut self.msk, usk, *keep))
            }
            _ => return None,
        };
        Some(matches!(r, Ok(Ok(()))))
    }

    /// A freshly generated key holds the newest secret of every right of its policy (so that it
    /// opens what is encapsulated now), no right outside its policy, and nothing that is not in
    /// the master key. The model then adopts what the key really holds.
    fn check_issued(&mut self, k: usize, what: &str) {
        let Some((w, got)) = self.decode_usk(k, what) else { return };
        let want = self.usks[k].model.held.clone();
        for r in got.keys() {
            if !want.contains_key(r) {
                self.fail("C02.k", format!("{what}: new key holds right {} which its policy does not give", self.show_right(r)));
            }
        }
        for (r, newest) in &want {
            match got.get(r) {
                None => self.fail("C01.k", format!("{what}: new key lacks right {}", self.show_right(r))),
                Some(vs) => {
                    if !vs.contains(&Some(newest[0])) {
                        self.fail("C01.k", format!("{what}: new key lacks the newest secret of {}; holds {vs:?}", self.show_right(r)));
                    }
                    let chain: Vec<Ver> = self.model.master.get(r).map(|c| c.iter().map(|e| e.ver).collect()).unwrap_or_default();
                    if vs.iter().any(|v| v.map_or(true, |v| !chain.contains(&v))) {
                        self.fail("C05.a", format!("{what}: new key holds a secret of {} that is not in the master chain", self.show_right(r)));
                    }
                }
            }
        }
        if w.sig.is_none() {
            self.fail("C08.s", format!("{what}: new key is not signed"));
        }
        // what the key MUST hold stays expected even if it is missing, and rights its policy does
        // not give are not adopted: the decaps matrix then shows the consequence under the clause
        // of the property being checked; older secrets of its own rights are adopted
        let mut held = want.clone();
        for (r, vs) in got {
            if let Some(e) = held.get_mut(&r) {
                for v in vs.into_iter().flatten() {
                    if !e.contains(&v) {
                        e.push(v);
                    }
                }
            }
        }
        self.usks[k].model.held = held;
    }

    /// Encrypts the menu once, under the first public key that has a structure.
    fn pke_init(&mut self) {
        let j = 1;
        for p in self.enc_menu.clone() {
            let Some(ap) = self.parse_policy(&p) else { continue };
            let Ok(m) = self.mpks[j].model.encaps(&parse_dnf(&p)) else { continue };
            if let Ok(Ok(ct)) = guarded!(PkeAc::<{ Aes256Gcm::KEY_LENGTH }, Aes256Gcm>::encrypt(&self.cc, &self.mpks[j].mpk, &ap, PKE_PLAINTEXT)) {
                self.pke.push(PkeEntry { policy: p, model: m, ct });
            }
        }
        for k in 0..self.usks.len() {
            self.pke_probe(k, false);
        }
    }

    /// Encrypts the menu under the newest public key - right after the same policies were used
    /// for another master key (other id layout) through the same instance - and decrypts with
    /// every key.
    fn pke_fresh_probe(&mut self) {
        let j = self.mpks.len() - 1;
        for p in self.enc_menu.clone() {
            let Some(ap) = self.parse_policy(&p) else { continue };
            if self.tenant_probe {
                self.tenant_interference(&p);
            }
            let pred = self.mpks[j].model.encaps(&parse_dnf(&p));
            let r = guarded!(PkeAc::<{ Aes256Gcm::KEY_LENGTH }, Aes256Gcm>::encrypt(&self.cc, &self.mpks[j].mpk, &ap, PKE_PLAINTEXT));
            self.bump("pke_encrypts");
            match (r, pred) {
                (Err(_), _) => self.fail("C12.h", format!("PKE encrypt {p:?} panicked")),
                (Ok(Ok(_)), Err(())) => self.fail("C12.h", format!("PKE encrypt {p:?} under the newest public key succeeded although the policy cannot be encrypted to")),
                (Ok(Err(e)), Ok(_)) => self.fail("C12.h", format!("PKE encrypt {p:?} under the newest public key failed: {e}")),
                (Ok(Err(_)), Err(())) => {}
                (Ok(Ok(ct)), Ok(m)) => {
                    for k in 0..self.usks.len() {
                        let want = self.usks[k].model.opens(&m);
                        let got = guarded!(PkeAc::<{ Aes256Gcm::KEY_LENGTH }, Aes256Gcm>::decrypt(&self.cc, &self.usks[k].usk, &ct));
                        let ok = match &got {
                            Ok(Ok(Some(x))) => want && **x == *PKE_PLAINTEXT,
                            Ok(Ok(None)) => !want,
                            _ => false,
                        };
                        if !ok {
                            self.fail("C12.h", format!("fresh PKE ciphertext for {p:?}: key {k} ({}) {}", self.usks[k].policy, if want { "cannot decrypt it" } else { "decrypts it although it is not authorised" }));
                        }
                    }
                }
            }
        }
    }

    /// Decrypts every long-lived ciphertext with key k; compares with the model when `check`.
    fn pke_probe(&mut self, k: usize, check: bool) {
        for i in 0..self.pke.len() {
            let want = self.usks[k].model.opens(&self.pke[i].model);
            let r = guarded!(PkeAc::<{ Aes256Gcm::KEY_LENGTH }, Aes256Gcm>::decrypt(&self.cc, &self.usks[k].usk, &self.pke[i].ct));
            self.bump("pke_decrypts");
            if !check {
                continue;
            }
            let desc = format!("key {k} ({}) on the long-lived ciphertext for {:?}", self.usks[k].policy, self.pke[i].policy);
            match r {
                Ok(Ok(Some(ptx))) => {
                    if !want {
                        self.fail("C12.h", format!("{desc}: decrypts although the key no longer holds (or never held) a targeted secret"));
                    } else if *ptx != PKE_PLAINTEXT {
                        self.fail("C12.h", format!("{desc}: decrypts to different data"));
                    }
                }
                Ok(Ok(None)) => {
                    if want {
                        self.fail("C12.h", format!("{desc}: 'not authorised' although the key holds a targeted secret"));
                    }
                }
                Ok(Err(e)) => self.fail("C12.h", format!("{desc}: Err({e})")),
                Err(_) => self.fail("C12.h", format!("{desc}: panicked")),
            }
        }
    }

    /// An issued key (by generation or by an earlier refresh) stays acceptable to refresh: probed
    /// on a copy of the key with both flags; the master key must not change.
    fn check_refreshable(&mut self, k: usize, what: &str) {
        if !self.usks[k].known {
            return;
        }
        let before = ser(&self.msk);
        for keep in [true, false] {
            let mut copy = self.usks[k].usk.clone();
            let r = guarded!(self.cc.refresh_usk(&mut self.msk, &mut copy, keep));
            self.bump("refreshability_probes");
            match r {
                Ok(Ok(())) => {}
                Ok(Err(e)) => {
                    self.fail("C09.r", format!("{what}: the key this call produced is refused by a following refresh(keep={keep}): {e}"));
                    self.fail("C04.f", format!("{what}: the key this call produced can no longer be refreshed (keep={keep}): it cannot follow the master key"));
                }
                Err(_) => self.fail("C09.p", format!("{what}: refresh of the key this call produced panicked")),
            }
        }
        let after = ser(&self.msk);
        if after != before && !msk_equal_canon(&before, &after) {
            self.fail("C09.s", format!("{what}: a refresh changed the master key: {}", msk_diff(&before, &after)));
        }
    }

    /// After an Ok refresh: must ⊆ held ⊆ may, per right; then the model adopts what is held.
    fn check_refreshed(&mut self, k: usize, keep: bool, pred: &RefreshPrediction, what: &str) {
        let Some((_, got)) = self.decode_usk(k, what) else { return };
        let held_before = self.usks[k].model.held.clone();
        for r in got.keys() {
            if !pred.may.contains_key(r) {
                let c = if held_before.contains_key(r) { "C05.a" } else { "C03.i" };
                self.fail(c, format!("{what}: refreshed key holds right {} which {}", self.show_right(r), if held_before.contains_key(r) { "left the master key" } else { "it never had" }));
            }
        }
        for (r, must) in &pred.must {
            let have: Vec<Option<Ver>> = got.get(r).cloned().unwrap_or_default();
            let have_set: BTreeSet<Ver> = have.iter().flatten().copied().collect();
            let newest = self.model.master[r][0].ver;
            for v in must {
                if !have_set.contains(v) {
                    let c = if *v == newest { "C04.n" } else { "C04.c" };
                    self.fail(c, format!("{what}: refreshed key lacks {} secret (version {v}) of {}; holds {have:?}", if *v == newest { "the newest" } else { "a kept" }, self.show_right(r)));
                }
            }
            let may = &pred.may[r];
            for v in &have {
                match v {
                    None => self.fail("C05.a", format!("{what}: refreshed key holds a secret of {} that is not in the master chain", self.show_right(r))),
                    Some(v) if !may.contains(v) => {
                        let in_chain = self.model.master[r].iter().any(|c| c.ver == *v);
                        let c = if in_chain { "C04.d" } else { "C05.a" };
                        self.fail(c, format!("{what}: refreshed key (keep={keep}) holds version {v} of {}, which {}", self.show_right(r), if in_chain { "is not the newest" } else { "was removed from the master key" }));
                    }
                    _ => {}
                }
            }
        }
        // adopt the observed content (known versions only) for later predictions; what the key
        // MUST hold stays expected even if it is missing, so that the behavioural clauses
        // (decaps of the encapsulations it could open before) still fire
        // ... and what it MAY not hold is not adopted either: the decaps matrix then shows the
        // consequence (an encapsulation the key should have lost is still opened) under the
        // clause of the property being checked
        let mut held = BTreeMap::new();
        for (r, vs) in got {
            let Some(may) = pred.may.get(&r) else { continue };
            let v: Vec<Ver> = vs.into_iter().flatten().filter(|v| may.contains(v)).collect();
            if !v.is_empty() {
                held.insert(r, v);
            }
        }
        for (r, must) in &pred.must {
            let e = held.entry(r.clone()).or_insert_with(Vec::new);
            for v in must {
                if !e.contains(v) {
                    e.push(*v);
                }
            }
        }
        self.usks[k].model.held = held;
    }

    // -------------------------------------------------------------------------------
    // observers

    /// Encapsulates the whole menu under published key j. `check_class` compares Ok/Err and
    /// the flavour with the model (done once per key object).
    pub fn menu_under(&mut self, j: usize, check_class: bool) -> Vec<EncEntry> {
        let mut out = vec![];
        for p in self.enc_menu.clone() {
            let Some(ap) = self.parse_policy(&p) else { continue };
            let dnf = parse_dnf(&p);
            let pred = self.mpks[j].model.encaps(&dnf);
            let r = guarded!(self.cc.encaps(&self.mpks[j].mpk, &ap));
            self.bump("encaps");
            match r {
                Err(_) => self.fail("C09.p", format!("encaps {p:?} under key {j}: panicked")),
                Ok(Ok((secret, enc))) => match pred {
                    Err(()) => {
                        if check_class {
                            let disabled = self.policy_hits_disabled(j, &dnf);
                            if disabled {
                                self.fail("C06.a", format!("encaps {p:?} under public key {j} succeeded although the policy involves a disabled attribute"));
                            }
                            self.fail("C09.e", format!("encaps {p:?} under public key {j} returned Ok, the contract says Err"));
                        }
                    }
                    Ok(m) => {
                        let mut enc = enc;
                        let bytes = ser(&enc);
                        if check_class {
                            match wire::WEnc::decode(&bytes) {
                                Ok(w) => {
                                    if w.hybrid != m.hybrid {
                                        self.fail("C11.d", format!("encaps {p:?} under key {j}: encapsulation hybrid={}, expected {}", w.hybrid, m.hybrid));
                                    }
                                    if w.items.len() != m.targets.len() {
                                        self.fail("C01.t", format!("encaps {p:?} under key {j}: {} items, expected {} targets", w.items.len(), m.targets.len()));
                                    }
                                    if bytes.len() != enc.length() {
                                        self.fail("C13.l", format!("encapsulation length() = {}, serialised {}", enc.length(), bytes.len()));
                                    }
                                }
                                Err(e) => self.fail("C13.w", format!("encapsulation does not decode with the pinned layout: {e}")),
                            }
                        }
                        if self.rt_encs {
                            match guarded!(XEnc::deserialize(&bytes)) {
                                Ok(Ok(e2)) => {
                                    if e2 != enc {
                                        self.fail("C13.e", "deserialised encapsulation differs from the original".to_string());
                                    }
                                    enc = e2;
                                }
                                _ => self.fail("C13.d", "own encapsulation rejected by deserialize".to_string()),
                            }
                        }
                        out.push(EncEntry { enc, secret: secret.to_vec(), model: m, mpk: j, policy: p.clone() });
                    }
                },
                Ok(Err(e)) => {
                    if pred.is_ok() && check_class {
                        self.fail("C06.b", format!("encaps {p:?} under public key {j} failed ({e}) although every targeted right is published"));
                        self.fail("C09.o", format!("encaps {p:?} under public key {j} returned Err({e}), the contract says Ok"));
                        if let Ok(m) = &pred {
                            let keys = &self.mpks[j].model.keys;
                            let n_h = m.targets.iter().filter(|(r, _)| keys.get(r).is_some_and(|k| k.1)).count();
                            if n_h > 0 && n_h < m.targets.len() {
                                self.fail("C11.m", format!("encaps {p:?} under public key {j} failed ({e}): its targets mix hybridized and classic rights, the encapsulation must be a classic one"));
                            }
                        }
                    }
                }
            }
        }
        out
    }

    fn policy_hits_disabled(&self, j: usize, dnf: &Dnf) -> bool {
        let st = &self.mpks[j].model.st;
        dnf.iter().flatten().any(|(d, n)| st.find(d, n).is_some_and(|a| a.disabled))
    }

    pub fn check_decaps_row(&mut self, k: usize, encs: &[EncEntry]) {
        for e in encs {
            let want = self.usks[k].model.opens(&e.model);
            let r = guarded!(self.cc.decaps(&self.usks[k].usk, &e.enc));
            self.bump("decaps");
            let desc = || format!("key {k} ({}) on encapsulation of {:?} under public key {}", self.usks[k].policy, e.policy, e.mpk);
            match r {
                Err(_) => {
                    let d = desc();
                    self.fail("C09.p", format!("decaps panicked: {d}"))
                }
                Ok(Err(err)) => {
                    let d = desc();
                    self.fail("C09.d", format!("decaps returned Err({err}): {d}"))
                }
                Ok(Ok(Some(s))) => {
                    if !want {
                        let d = desc();
                        let t = self.tags.deny;
                        self.fail(t, format!("{d}: opened, the model says it must not"));
                    } else if s.to_vec() != e.secret {
                        let d = desc();
                        self.fail("C01.x", format!("{d}: returned a different secret"));
                    } else {
                        self.bump("opened");
                    }
                }
                Ok(Ok(None)) => {
                    if want {
                        let d = desc();
                        let t = self.tags.open;
                        self.fail(t, format!("{d}: not opened, the model says it must"));
                    } else {
                        self.bump("refused");
                    }
                }
            }
        }
    }

    /// Serialisation invariants of the master key (C13) and tracing relation (C17).
    pub fn check_msk_object(&mut self, what: &str) {
        let bytes = ser(&self.msk);
        if bytes.len() != self.msk.length() {
            self.fail("C13.l", format!("{what}: master key length() = {}, serialised {}", self.msk.length(), bytes.len()));
        }
        match guarded!(MasterSecretKey::deserialize(&bytes)) {
            Ok(Ok(m2)) => {
                if m2 != self.msk {
                    self.fail("C13.e", format!("{what}: deserialised master key differs from the original"));
                }
                let b2 = ser(&m2);
                if !msk_equal_canon(&bytes, &b2) {
                    self.fail("C13.e", format!("{what}: re-serialised master key decodes differently"));
                }
            }
            Ok(Err(e)) => self.fail("C13.d", format!("{what}: own master key rejected by deserialize: {e}")),
            Err(_) => self.fail("C13.d", format!("{what}: deserialize(master key) panicked")),
        }
        if let Ok(w) = WMsk::decode(&bytes) {
            crate::tracing::check_msk(self, &w, what);
        }
        // the bare access structure
        let sb = ser(&self.msk.access_structure);
        if sb.len() != self.msk.access_structure.length() {
            self.fail("C13.l", format!("{what}: access structure length() = {}, serialised {}", self.msk.access_structure.length(), sb.len()));
        }
        match guarded!(cosmian_cover_crypt::AccessStructure::deserialize(&sb)) {
            Ok(Ok(s2)) => {
                if s2 != self.msk.access_structure {
                    self.fail("C13.e", format!("{what}: deserialised access structure differs from the original"));
                }
                if wire::WStructure::decode(&ser(&s2)) != wire::WStructure::decode(&sb) {
                    self.fail("C13.e", format!("{what}: re-serialised access structure decodes differently"));
                }
            }
            Ok(Err(e)) => self.fail("C13.d", format!("{what}: own access structure rejected by deserialize: {e}")),
            Err(_) => self.fail("C13.d", format!("{what}: deserialize(access structure) panicked")),
        }
    }

    pub fn check_usk_object(&mut self, k: usize, what: &str) {
        let bytes = ser(&self.usks[k].usk);
        if bytes.len() != self.usks[k].usk.length() {
            self.fail("C13.l", format!("{what}: user key {k} length() = {}, serialised {}", self.usks[k].usk.length(), bytes.len()));
        }
        match guarded!(UserSecretKey::deserialize(&bytes)) {
            Ok(Ok(u2)) => {
                if u2 != self.usks[k].usk {
                    self.fail("C13.e", format!("{what}: deserialised user key {k} differs from the original"));
                }
            }
            Ok(Err(e)) => self.fail("C13.d", format!("{what}: own user key {k} rejected by deserialize: {e}")),
            Err(_) => self.fail("C13.d", format!("{what}: deserialize(user key {k}) panicked")),
        }
        let mskb = ser(&self.msk);
        if let (Ok(w), Ok(m)) = (WUsk::decode(&bytes), WMsk::decode(&mskb)) {
            crate::tracing::check_usk(self, k, &w, &m, what);
        }
    }

    /// Decoded content of public key j against the model's snapshot (C06/C11/C13/C17).
    pub fn check_mpk_object(&mut self, j: usize, what: &str) {
        let bytes = ser(&self.mpks[j].mpk);
        if bytes.len() != self.mpks[j].mpk.length() {
            self.fail("C13.l", format!("{what}: public key length() = {}, serialised {}", self.mpks[j].mpk.length(), bytes.len()));
        }
        match guarded!(MasterPublicKey::deserialize(&bytes)) {
            Ok(Ok(m2)) => {
                if m2 != self.mpks[j].mpk {
                    self.fail("C13.e", format!("{what}: deserialised public key differs from the original"));
                }
            }
            Ok(Err(e)) => self.fail("C13.d", format!("{what}: own public key rejected by deserialize: {e}")),
            Err(_) => self.fail("C13.d", format!("{what}: deserialize(public key) panicked")),
        }
        let w = match WMpk::decode(&bytes) {
            Ok(w) => w,
            Err(e) => {
                self.fail("C13.w", format!("{what}: public key does not decode with the pinned layout: {e}"));
                return;
            }
        };
        let model = self.mpks[j].model.clone();
        let mut seen = BTreeSet::new();
        for (rb, k) in &w.keys {
            let Ok(r) = self.right_to_model(rb) else {
                self.fail("C03.k", format!("{what}: public key has a right with unknown ids {}", wire::hex(rb)));
                continue;
            };
            seen.insert(r.clone());
            match model.keys.get(&r) {
                None => {
                    let disabled = r.iter().any(|t| model.st.tok_attr(*t).is_some_and(|(_, a)| a.disabled));
                    let c = if disabled { "C06.p" } else { "C03.p" };
                    self.fail(c, format!("{what}: public key publishes right {} which it must not", self.show_right(&r)));
                }
                Some((_, hybrid)) => {
                    if k.ek.is_some() != *hybrid {
                        self.fail("C11.b", format!("{what}: public key entry of {} hybrid={}, expected {hybrid}", self.show_right(&r), k.ek.is_some()));
                    }
                }
            }
        }
        for r in model.keys.keys() {
            if !seen.contains(r) {
                self.fail("C06.q", format!("{what}: public key lacks right {}", self.show_right(r)));
            }
        }
        let mskb = ser(&self.msk);
        if let Ok(m) = WMsk::decode(&mskb) {
            let want: Vec<&Vec<u8>> = m.tracers.iter().map(|(_, p)| p).collect();
            let got: Vec<&Vec<u8>> = w.tpk.iter().collect();
            if want != got {
                self.fail("C17.d", format!("{what}: tracing points of the public key differ from the master tracers"));
            }
        }
    }
}

/// Order-insensitive equality of two serialised master keys.
pub fn msk_equal_canon(a: &[u8], b: &[u8]) -> bool {
    match (WMsk::decode(a), WMsk::decode(b)) {
        (Ok(mut x), Ok(mut y)) => {
            x.fields.clear();
            y.fields.clear();
            x == y
        }
        _ => false,
    }
}

pub fn msk_diff(a: &[u8], b: &[u8]) -> String {
    match (WMsk::decode(a), WMsk::decode(b)) {
        (Ok(x), Ok(y)) => {
            let mut s = vec![];
            if x.rights.len() != y.rights.len() {
                s.push(format!("rights {} -> {}", x.rights.len(), y.rights.len()));
            }
            let lx: usize = x.rights.values().map(Vec::len).sum();
            let ly: usize = y.rights.values().map(Vec::len).sum();
            if lx != ly {
                s.push(format!("secrets {lx} -> {ly}"));
            }
            if x.users != y.users {
                s.push(format!("user ids {} -> {}", x.users.len(), y.users.len()));
            }
            if x.structure != y.structure {
                s.push("structure changed".into());
            }
            if s.is_empty() {
                s.push("secret values changed".into());
            }
            s.join(", ")
        }
        _ => "undecodable".into(),
    }
}
