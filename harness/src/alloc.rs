//! Counting global allocator: current and peak bytes requested, for C14's memory bound.

use std::alloc::{GlobalAlloc, Layout, System};
use std::sync::atomic::{AtomicBool, AtomicUsize, Ordering};

pub struct Counting;

static CURRENT: AtomicUsize = AtomicUsize::new(0);
static PEAK: AtomicUsize = AtomicUsize::new(0);
static ENABLED: AtomicBool = AtomicBool::new(false);

unsafe impl GlobalAlloc for Counting {
    unsafe fn alloc(&self, l: Layout) -> *mut u8 {
        let p = System.alloc(l);
        if !p.is_null() && ENABLED.load(Ordering::Relaxed) {
            let c = CURRENT.fetch_add(l.size(), Ordering::Relaxed) + l.size();
            PEAK.fetch_max(c, Ordering::Relaxed);
        }
        p
    }
    unsafe fn dealloc(&self, p: *mut u8, l: Layout) {
        System.dealloc(p, l);
        if ENABLED.load(Ordering::Relaxed) {
            // saturating: blocks allocated before enabling may be freed after
            let _ = CURRENT.fetch_update(Ordering::Relaxed, Ordering::Relaxed, |c| Some(c.saturating_sub(l.size())));
        }
    }
    unsafe fn alloc_zeroed(&self, l: Layout) -> *mut u8 {
        let p = System.alloc_zeroed(l);
        if !p.is_null() && ENABLED.load(Ordering::Relaxed) {
            let c = CURRENT.fetch_add(l.size(), Ordering::Relaxed) + l.size();
            PEAK.fetch_max(c, Ordering::Relaxed);
        }
        p
    }
    unsafe fn realloc(&self, p: *mut u8, l: Layout, new_size: usize) -> *mut u8 {
        let q = System.realloc(p, l, new_size);
        if !q.is_null() && ENABLED.load(Ordering::Relaxed) {
            if new_size >= l.size() {
                let c = CURRENT.fetch_add(new_size - l.size(), Ordering::Relaxed) + (new_size - l.size());
                PEAK.fetch_max(c, Ordering::Relaxed);
            } else {
                let _ = CURRENT.fetch_update(Ordering::Relaxed, Ordering::Relaxed, |c| Some(c.saturating_sub(l.size() - new_size)));
            }
        }
        q
    }
}

/// Starts a measurement window (single-threaded worker use).
pub fn start() {
    CURRENT.store(0, Ordering::Relaxed);
    PEAK.store(0, Ordering::Relaxed);
    ENABLED.store(true, Ordering::Relaxed);
}

/// Ends the window and returns the peak number of bytes live at once.
pub fn stop() -> usize {
    ENABLED.store(false, Ordering::Relaxed);
    PEAK.load(Ordering::Relaxed)
}
