//! Exhaustive structures x user policies x encryption policies (C01, C02, C11).
//!
//! The oracle is the name-level cover relation of the property statements, computed on
//! names and ranks only (attribute ids never enter it).

use std::collections::{BTreeMap, BTreeSet};
use std::panic::{catch_unwind, AssertUnwindSafe};

use serde_json::json;

use cosmian_cover_crypt::{api::Covercrypt, traits::KemAc, AccessPolicy, MasterPublicKey, MasterSecretKey, QualifiedAttribute, UserSecretKey, XEnc};

use crate::common::{par_map, Run};
use crate::wire::{self, WEnc, WMpk, WMsk, WUsk};
use crate::world::{hint, ser};

#[derive(Clone, Debug)]
pub struct DimSpec {
    pub name: String,
    pub ordered: bool,
    /// attribute names in rank order (lowest first) for a hierarchy
    pub attrs: Vec<String>,
    pub hybrid: Vec<bool>,
    /// insertion order (indices into attrs)
    pub script: Vec<usize>,
}

#[derive(Clone, Debug, PartialEq)]
pub enum Variant {
    Plain,
    /// the master key is replaced by its deserialised serialisation before any key is made
    RoundTrip,
    /// an extra attribute is inserted at this rank of this dimension, then deleted, before the update
    DeletedExtra { dim: usize, rank: usize },
    /// the attribute at this rank of this dimension is created under another name and renamed
    Renamed { dim: usize, rank: usize },
}

#[derive(Clone, Debug)]
pub struct StructSpec {
    pub dims: Vec<DimSpec>,
    pub variant: Variant,
}

impl StructSpec {
    pub fn describe(&self) -> String {
        self.dims
            .iter()
            .map(|d| {
                let attrs: Vec<String> = d.attrs.iter().zip(&d.hybrid).map(|(a, h)| format!("{a}{}", if *h { "+" } else { "" })).collect();
                format!("{}{}[{}] ins{:?}", d.name, if d.ordered { "<" } else { "~" }, attrs.join(if d.ordered { "<" } else { "," }), d.script)
            })
            .collect::<Vec<_>>()
            .join(" ")
            + &match &self.variant {
                Variant::Plain => String::new(),
                Variant::RoundTrip => " [master key round-tripped]".to_string(),
                Variant::DeletedExtra { dim, rank } => format!(" [extra attribute inserted at rank {rank} of {} then deleted]", self.dims[*dim].name),
                Variant::Renamed { dim, rank } => format!(" [attribute at rank {rank} of {} created as 'tmp' and renamed]", self.dims[*dim].name),
            }
    }
    pub fn omega(&self) -> usize {
        self.dims.iter().map(|d| d.attrs.len() + 1).product()
    }
}

// names chosen so that lexicographic order differs from rank order
const ATTR_NAMES: [&str; 3] = ["m", "z", "a"];
const DIM_NAMES: [&str; 3] = ["Q", "D", "K"];

fn permutations(n: usize) -> Vec<Vec<usize>> {
    if n == 0 {
        return vec![vec![]];
    }
    let mut out = vec![];
    for p in permutations(n - 1) {
        for i in 0..=p.len() {
            let mut q = p.clone();
            q.insert(i, n - 1);
            out.push(q);
        }
    }
    out
}

pub fn enumerate_structures(thorough: bool) -> Vec<StructSpec> {
    let mut shapes: Vec<Vec<(bool, usize)>> = vec![];
    let max_size = if thorough { 3 } else { 2 };
    let kinds = [false, true];
    for a in kinds {
        for sa in 1..=max_size {
            shapes.push(vec![(a, sa)]);
            for b in kinds {
                for sb in 1..=max_size {
                    shapes.push(vec![(a, sa), (b, sb)]);
                    if thorough && sa <= 2 && sb <= 2 {
                        for c in kinds {
                            for sc in 1..=2usize {
                                if (sa + 1) * (sb + 1) * (sc + 1) <= 18 {
                                    shapes.push(vec![(a, sa), (b, sb), (c, sc)]);
                                }
                            }
                        }
                    }
                }
            }
        }
    }
    if !thorough {
        shapes.push(vec![(true, 2), (false, 2), (false, 1)]);
        shapes.push(vec![(true, 3), (false, 1)]);
    }
    // one wide anarchy: many attributes, encryption policies with 8 / 16 / 32 / 33 / 40 targets
    shapes.push(vec![(false, 40)]);
    let mut out = vec![];
    for shape in shapes {
        let k: usize = shape.iter().map(|(_, s)| s).sum();
        if k == 40 {
            for hyb in [false, true] {
                out.push(StructSpec { dims: vec![DimSpec { name: "W".into(), ordered: false, attrs: (0..40).map(|i| format!("w{i}")).collect(), hybrid: vec![hyb; 40], script: (0..40).collect() }], variant: Variant::Plain });
            }
            // more than 128 attributes: identifiers whose LEB128 encoding takes two bytes, next to
            // a small hierarchy; and odd names: a 300-byte name, names that are prefixes of each
            // other, an attribute named like its dimension, non-ASCII names
            let big = DimSpec { name: "W".into(), ordered: false, attrs: (0..131).map(|i| format!("w{i}")).collect(), hybrid: (0..131).map(|i| i % 64 == 0).collect(), script: (0..131).collect() };
            let hier = DimSpec { name: "Q".into(), ordered: true, attrs: vec!["m".into(), "z".into()], hybrid: vec![false, true], script: vec![1, 0] };
            out.push(StructSpec { dims: vec![big, hier.clone()], variant: Variant::Plain });
            let long = "L".repeat(300);
            let odd = DimSpec { name: "DD".into(), ordered: false, attrs: vec!["DD".into(), "D".into(), long, "Dé ü".into()], hybrid: vec![false, true, false, false], script: vec![0, 1, 2, 3] };
            let odd2 = DimSpec { name: "D".into(), ordered: true, attrs: vec!["D".into(), "DD".into(), "DDD".into()], hybrid: vec![false, false, true], script: vec![2, 0, 1] };
            out.push(StructSpec { dims: vec![odd.clone(), odd2.clone()], variant: Variant::Plain });
            out.push(StructSpec { dims: vec![odd, odd2], variant: Variant::RoundTrip });
            continue;
        }
        // hint assignments
        let mut hints: Vec<Vec<bool>> = vec![];
        if k <= 4 && (thorough || k <= 3) {
            for m in 0..(1u32 << k) {
                hints.push((0..k).map(|i| m & (1 << i) != 0).collect());
            }
        } else {
            hints.push(vec![false; k]);
            hints.push(vec![true; k]);
            for i in 0..k {
                hints.push((0..k).map(|j| j == i).collect());
            }
            let mut off = 0;
            for (_, s) in &shape {
                hints.push((0..k).map(|j| j >= off && j < off + s).collect());
                off += s;
            }
        }
        // insertion scripts: every permutation for hierarchies (first two dimensions), identity + reversed otherwise
        let mut scripts: Vec<Vec<Vec<usize>>> = vec![vec![]];
        for (di, (ordered, s)) in shape.iter().enumerate() {
            let opts: Vec<Vec<usize>> = if *ordered && di < 2 && (thorough || *s <= 3) {
                permutations(*s)
            } else if *s > 1 {
                vec![(0..*s).collect(), (0..*s).rev().collect()]
            } else {
                vec![vec![0]]
            };
            let mut next = vec![];
            for pre in &scripts {
                for o in &opts {
                    let mut p = pre.clone();
                    p.push(o.clone());
                    next.push(p);
                }
            }
            scripts = next;
        }
        let three = shape.len() == 3;
        for (hi, h) in hints.iter().enumerate() {
            for (si, sc) in scripts.iter().enumerate() {
                // three dimensions: {no hint, all, first attribute} x {first, last script} only
                if three && (hi > 2 || (si > 0 && si + 1 < scripts.len())) {
                    continue;
                }
                // do not multiply hints x scripts fully: all scripts with the first two hint
                // assignments, all hints with the first script
                if hi > 1 && si > 0 {
                    continue;
                }
                let mut off = 0;
                let dims = shape
                    .iter()
                    .enumerate()
                    .map(|(di, (ordered, s))| {
                        let d = DimSpec {
                            name: DIM_NAMES[di].to_string(),
                            ordered: *ordered,
                            attrs: if *s <= 3 { ATTR_NAMES[..*s].iter().map(|a| a.to_string()).collect() } else { (0..*s).map(|i| format!("w{i}")).collect() },
                            hybrid: h[off..off + s].to_vec(),
                            script: sc[di].clone(),
                        };
                        off += s;
                        d
                    })
                    .collect();
                let dims: Vec<DimSpec> = dims;
                out.push(StructSpec { dims: dims.clone(), variant: Variant::Plain });
                // variants (on the first hint assignment only): serialisation round-trip of the
                // master key when some rank order differs from the insertion order, and an extra
                // attribute inserted at every rank of every dimension and deleted again
                if hi == 0 {
                    let reordered = dims.iter().any(|d| d.script.iter().enumerate().any(|(i, j)| i != *j));
                    if reordered || si == 0 {
                        out.push(StructSpec { dims: dims.clone(), variant: Variant::RoundTrip });
                    }
                    if si == 0 {
                        for (di, d) in dims.iter().enumerate() {
                            let ranks: Vec<usize> = if d.ordered { (0..=d.attrs.len()).collect() } else { vec![0] };
                            for rank in ranks {
                                out.push(StructSpec { dims: dims.clone(), variant: Variant::DeletedExtra { dim: di, rank } });
                            }
                            for rank in 0..d.attrs.len() {
                                out.push(StructSpec { dims: dims.clone(), variant: Variant::Renamed { dim: di, rank } });
                            }
                        }
                    }
                }
            }
        }
    }
    out
}

/// A clause: for every dimension, the index of the chosen attribute or None.
pub type Clause = Vec<Option<usize>>;

pub fn clauses(spec: &StructSpec) -> Vec<Clause> {
    let mut acc: Vec<Clause> = vec![vec![]];
    for d in &spec.dims {
        let mut next = vec![];
        for c in &acc {
            let mut c0 = c.clone();
            c0.push(None);
            next.push(c0);
            for i in 0..d.attrs.len() {
                let mut c1 = c.clone();
                c1.push(Some(i));
                next.push(c1);
            }
        }
        acc = next;
    }
    acc
}

/// The cover relation of the property statements.
pub fn covers(spec: &StructSpec, user: &Clause, enc: &Clause) -> bool {
    spec.dims.iter().enumerate().all(|(di, d)| match (user[di], enc[di]) {
        (_, None) => true,
        (None, Some(_)) => true,
        (Some(a), Some(e)) => a == e || (d.ordered && e <= a),
    })
}

pub fn policy_covers(spec: &StructSpec, user: &[Clause], enc: &[Clause]) -> bool {
    user.iter().any(|u| enc.iter().any(|e| covers(spec, u, e)))
}

fn attr_text(spec: &StructSpec, di: usize, ai: usize) -> String {
    format!("{}::{}", spec.dims[di].name, spec.dims[di].attrs[ai])
}

fn clause_attrs(spec: &StructSpec, c: &Clause) -> Vec<String> {
    c.iter().enumerate().filter_map(|(di, a)| a.map(|ai| attr_text(spec, di, ai))).collect()
}

/// Renders a policy (1 or 2 clauses) in one of four shapes.
pub fn render(spec: &StructSpec, pol: &[Clause], shape: usize) -> String {
    let cl: Vec<Vec<String>> = pol.iter().map(|c| clause_attrs(spec, c)).collect();
    let flat = |c: &Vec<String>| if c.is_empty() { "*".to_string() } else { c.join(" && ") };
    match shape % 4 {
        0 => cl.iter().map(flat).collect::<Vec<_>>().join(" || "),
        1 => {
            // factored when two clauses share a factor
            if cl.len() == 2 && !cl[0].is_empty() && !cl[1].is_empty() {
                let common: Vec<&String> = cl[0].iter().filter(|a| cl[1].contains(a)).collect();
                let r0: Vec<&String> = cl[0].iter().filter(|a| !common.contains(a)).collect();
                let r1: Vec<&String> = cl[1].iter().filter(|a| !common.contains(a)).collect();
                if !common.is_empty() && !r0.is_empty() && !r1.is_empty() {
                    let j = |v: &Vec<&String>| v.iter().map(|s| s.as_str()).collect::<Vec<_>>().join(" && ");
                    return format!("({} || {}) && {}", j(&r0), j(&r1), j(&common));
                }
            }
            cl.iter().map(|c| if c.is_empty() { "*".to_string() } else { format!("({})", c.join(" && ")) }).collect::<Vec<_>>().join(" || ")
        }
        3 => {
            // a neutral broadcast operand next to every conjunction (`X && (*)` reads X), on
            // alternating sides
            cl.iter()
                .enumerate()
                .map(|(k, c)| if c.is_empty() { "*".to_string() } else if k % 2 == 0 { format!("{} && (*)", c.join(" && ")) } else { format!("(*) && {}", c.join(" && ")) })
                .collect::<Vec<_>>()
                .join(" || ")
        }
        _ => {
            // noisy: redundant parentheses, irregular blanks, juxtaposition of groups
            cl.iter()
                .map(|c| {
                    if c.is_empty() {
                        " * ".to_string()
                    } else {
                        let parts: Vec<String> = c.iter().map(|a| format!("( ({a} ))")).collect();
                        format!("  ({})", parts.join("  "))
                    }
                })
                .collect::<Vec<_>>()
                .join("||")
        }
    }
}

fn has_star_early(pol: &[Clause]) -> bool {
    pol.len() > 1 && pol.iter().any(|c| c.iter().all(Option::is_none))
}

pub struct Built {
    pub cc: Covercrypt,
    pub msk: MasterSecretKey,
    pub mpk: MasterPublicKey,
}

pub fn build(spec: &StructSpec) -> Result<Built, String> {
    let cc = Covercrypt::default();
    let (mut msk, _) = cc.setup().map_err(|e| e.to_string())?;
    for d in &spec.dims {
        if d.ordered {
            msk.access_structure.add_hierarchy(d.name.clone()).map_err(|e| e.to_string())?;
        } else {
            msk.access_structure.add_anarchy(d.name.clone()).map_err(|e| e.to_string())?;
        }
        let mut inserted: Vec<usize> = vec![];
        for &ai in &d.script {
            // after = inserted attribute with the largest rank below ai
            let after = inserted.iter().filter(|&&j| j < ai).max().map(|&j| d.attrs[j].clone());
            msk.access_structure
                .add_attribute(QualifiedAttribute::new(&d.name, &d.attrs[ai]), hint(d.hybrid[ai]), after.as_deref())
                .map_err(|e| e.to_string())?;
            inserted.push(ai);
        }
    }
    if let Variant::Renamed { dim, rank } = &spec.variant {
        // rename away and back: the attribute must keep its rank, id, hint
        let d = &spec.dims[*dim];
        msk.access_structure.rename_attribute(&QualifiedAttribute::new(&d.name, &d.attrs[*rank]), "tmp".to_string()).map_err(|e| e.to_string())?;
        msk.access_structure.rename_attribute(&QualifiedAttribute::new(&d.name, "tmp"), d.attrs[*rank].clone()).map_err(|e| e.to_string())?;
    }
    if let Variant::DeletedExtra { dim, rank } = &spec.variant {
        let d = &spec.dims[*dim];
        let after = if *rank == 0 { None } else { Some(d.attrs[*rank - 1].clone()) };
        msk.access_structure.add_attribute(QualifiedAttribute::new(&d.name, "extra"), hint(true), after.as_deref()).map_err(|e| e.to_string())?;
        msk.access_structure.del_attribute(&QualifiedAttribute::new(&d.name, "extra")).map_err(|e| e.to_string())?;
    }
    let mut mpk = cc.update_msk(&mut msk).map_err(|e| e.to_string())?;
    if spec.variant == Variant::RoundTrip {
        use cosmian_crypto_core::bytes_ser_de::Serializable;
        msk = MasterSecretKey::deserialize(&ser(&msk)).map_err(|e| format!("own master key rejected: {e}"))?;
        mpk = MasterPublicKey::deserialize(&ser(&mpk)).map_err(|e| format!("own public key rejected: {e}"))?;
    }
    Ok(Built { cc, msk, mpk })
}

#[derive(Default, Clone)]
pub struct CellStats {
    pub cells: u64,
    pub opened: u64,
    pub refused: u64,
    pub lower_opened_by_higher: u64,
    pub higher_refused_to_lower: u64,
    pub sibling_refused: u64,
    pub hybrid_encs: u64,
    pub classic_encs: u64,
    pub flavour_checks: u64,
    pub shape_checks: u64,
    pub failures: Vec<(String, String)>,
}

fn policies(spec: &StructSpec, thorough: bool) -> Vec<Vec<Clause>> {
    let p1 = clauses(spec);
    if spec.dims.len() == 2 && spec.dims[0].attrs.len() > 100 {
        let mut out: Vec<Vec<Clause>> = vec![vec![vec![None, None]]];
        for a in [0usize, 64, 126, 127, 128, 129, 130] {
            out.push(vec![vec![Some(a), None]]);
            out.push(vec![vec![Some(a), Some(0)]]);
            out.push(vec![vec![Some(a), Some(1)]]);
        }
        out.push(vec![vec![None, Some(0)]]);
        out.push(vec![vec![None, Some(1)]]);
        out.push(vec![vec![Some(127), Some(1)], vec![Some(128), Some(0)]]);
        out.push(vec![vec![Some(128), None], vec![Some(129), None], vec![Some(0), Some(1)]]);
        return out;
    }
    if spec.dims.len() == 1 && spec.dims[0].attrs.len() > 3 {
        // wide anarchy: a few single attributes and wide disjunctions
        let n = spec.dims[0].attrs.len();
        let single = |i: usize| -> Clause { vec![Some(i)] };
        let mut out: Vec<Vec<Clause>> = vec![vec![vec![None]], vec![single(0)], vec![single(7)], vec![single(31)], vec![single(32)], vec![single(n - 1)]];
        for k in [2usize, 8, 16, 32, 33, n] {
            out.push((0..k).map(single).collect());
        }
        out.push((8..24).rev().map(single).collect());
        return out;
    }
    let mut out: Vec<Vec<Clause>> = p1.iter().map(|c| vec![c.clone()]).collect();
    let full_pairs = spec.omega() <= 16 || (thorough && spec.omega() <= 24);
    for i in 0..p1.len() {
        for j in (i + 1)..p1.len() {
            // `*` inside a larger expression is outside the documented grammar: `*` stays a
            // single-conjunction policy
            if p1[i].iter().all(Option::is_none) || p1[j].iter().all(Option::is_none) {
                continue;
            }
            if full_pairs || j == i + 1 || (i + j) % 7 == 0 {
                // both textual orders of a pair occur (alternating)
                if (i + j) % 2 == 0 {
                    out.push(vec![p1[i].clone(), p1[j].clone()]);
                } else {
                    out.push(vec![p1[j].clone(), p1[i].clone()]);
                }
            }
        }
    }
    // `X || *`: the broadcast as the last operand of a disjunction (covers everything)
    if spec.omega() <= 16 {
        for i in 1..p1.len() {
            out.push(vec![p1[i].clone(), p1[0].clone()]);
        }
    }
    // three-conjunction policies on the smallest structures (three targets / three clauses)
    if spec.omega() <= 9 {
        for i in 1..p1.len() {
            for j in (i + 1)..p1.len() {
                for k in (j + 1)..p1.len() {
                    if spec.omega() > 6 && (i + 2 * j + 3 * k) % 5 != 0 {
                        continue;
                    }
                    out.push(match (i + j + k) % 3 {
                        0 => vec![p1[i].clone(), p1[j].clone(), p1[k].clone()],
                        1 => vec![p1[k].clone(), p1[i].clone(), p1[j].clone()],
                        _ => vec![p1[j].clone(), p1[k].clone(), p1[i].clone()],
                    });
                }
            }
        }
    }
    out
}

/// Runs the whole matrix of one structure.
pub fn run_structure(spec: &StructSpec, thorough: bool) -> CellStats {
    let mut st = CellStats::default();
    let b = match catch_unwind(|| build(spec)) {
        Ok(Ok(b)) => b,
        Ok(Err(e)) => {
            st.failures.push(("C09.o".into(), format!("building {} failed: {e}", spec.describe())));
            return st;
        }
        Err(_) => {
            st.failures.push(("C09.p".into(), format!("building {} panicked", spec.describe())));
            return st;
        }
    };
    // decoded master key: rank order, hints, flavour of every right (C11.a/b, C03.s)
    let mskb = ser(&b.msk);
    let mpkb = ser(&b.mpk);
    let (Ok(wm), Ok(wp)) = (WMsk::decode(&mskb), WMpk::decode(&mpkb)) else {
        st.failures.push(("C13.w".into(), format!("{}: keys do not decode", spec.describe())));
        return st;
    };
    let mut id_hybrid: BTreeMap<u64, bool> = BTreeMap::new();
    let mut ids: BTreeMap<(usize, usize), u64> = BTreeMap::new();
    for (di, d) in spec.dims.iter().enumerate() {
        let Some(wd) = wm.structure.dims.get(&d.name) else {
            st.failures.push(("C03.s".into(), format!("{}: dimension {} missing", spec.describe(), d.name)));
            return st;
        };
        if d.ordered {
            let got: Vec<&String> = wd.attrs.iter().map(|a| &a.name).collect();
            let want: Vec<&String> = d.attrs.iter().collect();
            if got != want {
                st.failures.push(("C03.s".into(), format!("{}: hierarchy {} is ranked {got:?}, expected {want:?}", spec.describe(), d.name)));
            }
        }
        for (ai, a) in d.attrs.iter().enumerate() {
            if let Some(wa) = wd.attrs.iter().find(|x| &x.name == a) {
                id_hybrid.insert(wa.id, wa.hybrid);
                ids.insert((di, ai), wa.id);
                if wa.hybrid != d.hybrid[ai] {
                    st.failures.push(("C11.s".into(), format!("{}: hint of {}::{a} is {}", spec.describe(), d.name, wa.hybrid)));
                }
            }
        }
    }
    if wm.rights.len() != spec.omega() {
        st.failures.push(("C03.u".into(), format!("{}: master key has {} rights, expected {}", spec.describe(), wm.rights.len(), spec.omega())));
    }
    let right_hybrid = |r: &[u8]| -> bool { wire::right_ids(r).map(|v| v.iter().any(|i| id_hybrid.get(i).copied().unwrap_or(false))).unwrap_or(false) };
    for (r, chain) in &wm.rights {
        for (_, k) in chain {
            st.flavour_checks += 1;
            if k.hybrid() != right_hybrid(r) {
                st.failures.push(("C11.a".into(), format!("{}: master secret of right {} hybrid={}, expected {}", spec.describe(), wire::hex(r), k.hybrid(), right_hybrid(r))));
            }
        }
        match wp.keys.get(r) {
            Some(pk) => {
                st.flavour_checks += 1;
                if pk.ek.is_some() != right_hybrid(r) {
                    st.failures.push(("C11.b".into(), format!("{}: public key of right {} hybrid={}, expected {}", spec.describe(), wire::hex(r), pk.ek.is_some(), right_hybrid(r))));
                }
            }
            None => st.failures.push(("C06.q".into(), format!("{}: public key lacks right {}", spec.describe(), wire::hex(r)))),
        }
    }

    let pols = policies(spec, thorough);
    // user keys and encapsulations, one per policy; the text shape rotates with the index and
    // the rights sets of all three shapes are compared
    let mut usks: Vec<Option<UserSecretKey>> = vec![];
    let mut encs: Vec<Option<(XEnc, Vec<u8>)>> = vec![];
    let mut msk = b.msk;
    for (i, pol) in pols.iter().enumerate() {
        let texts: Vec<String> = (0..4).map(|s| render(spec, pol, s)).collect();
        let parsed: Vec<Option<AccessPolicy>> = texts.iter().map(|t| catch_unwind(|| AccessPolicy::parse(t)).ok().and_then(Result::ok)).collect();
        if parsed.iter().any(Option::is_none) {
            st.failures.push(("C15.b".into(), format!("{}: one of {texts:?} does not parse", spec.describe())));
            usks.push(None);
            encs.push(None);
            continue;
        }
        let aps: Vec<AccessPolicy> = parsed.into_iter().flatten().collect();
        let ur: Vec<_> = aps.iter().map(|ap| msk.access_structure.ap_to_usk_rights(ap).ok()).collect();
        let er: Vec<_> = aps.iter().map(|ap| msk.access_structure.ap_to_enc_rights(ap).ok()).collect();
        st.shape_checks += 2;
        if ur.iter().any(|u| *u != ur[0]) || er.iter().any(|e| *e != er[0]) {
            st.failures.push(("C15.c".into(), format!("{}: the four renderings {texts:?} expand to different rights", spec.describe())));
        }
        let ap = &aps[i % 4];
        match catch_unwind(AssertUnwindSafe(|| b.cc.generate_user_secret_key(&mut msk, ap))) {
            Ok(Ok(usk)) => {
                // C11.c: flavour of every secret of the key
                if let Ok(wu) = WUsk::decode(&ser(&usk)) {
                    for (r, chain) in &wu.chains {
                        for k in chain {
                            st.flavour_checks += 1;
                            if k.hybrid() != right_hybrid(r) {
                                st.failures.push(("C11.c".into(), format!("{}: user key {:?} holds right {} hybrid={}, expected {}", spec.describe(), texts[i % 4], wire::hex(r), k.hybrid(), right_hybrid(r))));
                            }
                        }
                    }
                }
                usks.push(Some(usk))
            }
            Ok(Err(e)) => {
                st.failures.push(("C09.o".into(), format!("{}: keygen {:?} failed: {e}", spec.describe(), texts[i % 4])));
                usks.push(None);
            }
            Err(_) => {
                st.failures.push(("C09.p".into(), format!("{}: keygen {:?} panicked", spec.describe(), texts[i % 4])));
                usks.push(None);
            }
        }
        let ap = &aps[(i + 1) % 4];
        match catch_unwind(AssertUnwindSafe(|| b.cc.encaps(&b.mpk, ap))) {
            Ok(Ok((s, e))) => {
                // C11.d: hybridized iff every targeted right is
                let targets: BTreeSet<Vec<u8>> = pol.iter().map(|c| wire::ids_right(&c.iter().enumerate().filter_map(|(di, a)| a.map(|ai| ids[&(di, ai)])).collect::<Vec<_>>())).collect();
                let want_h = targets.iter().all(|r| right_hybrid(r));
                if let Ok(we) = WEnc::decode(&ser(&e)) {
                    st.flavour_checks += 1;
                    if !has_star_early(pol) && we.hybrid != want_h {
                        st.failures.push(("C11.d".into(), format!("{}: encapsulation of {:?} hybrid={}, expected {want_h}", spec.describe(), texts[(i + 1) % 4], we.hybrid)));
                    }
                    let has_star = pol.iter().any(|c| c.iter().all(Option::is_none)) && pol.len() > 1;
                    if !has_star && we.items.len() != targets.len() {
                        st.failures.push(("C01.t".into(), format!("{}: encapsulation of {:?} has {} items for {} targets", spec.describe(), texts[(i + 1) % 4], we.items.len(), targets.len())));
                    }
                    if we.hybrid {
                        st.hybrid_encs += 1;
                    } else {
                        st.classic_encs += 1;
                    }
                }
                encs.push(Some((e, s.to_vec())))
            }
            Ok(Err(e)) => {
                st.failures.push(("C09.o".into(), format!("{}: encaps {:?} failed: {e}", spec.describe(), texts[(i + 1) % 4])));
                encs.push(None);
            }
            Err(_) => {
                st.failures.push(("C09.p".into(), format!("{}: encaps {:?} panicked", spec.describe(), texts[(i + 1) % 4])));
                encs.push(None);
            }
        }
    }
    let big = spec.omega() > 16 && !(thorough && spec.omega() <= 24);
    for (ui, upol) in pols.iter().enumerate() {
        let Some(usk) = &usks[ui] else { continue };
        for (ei, epol) in pols.iter().enumerate() {
            if big && upol.len() == 2 && epol.len() == 2 {
                continue; // stated in the evidence: P2 x P2 only for |Ω| <= 16
            }
            let Some((enc, secret)) = &encs[ei] else { continue };
            let want = policy_covers(spec, upol, epol);
            let got = catch_unwind(AssertUnwindSafe(|| b.cc.decaps(usk, enc)));
            st.cells += 1;
            let desc = || format!("{}: user {:?} / encryption {:?}", spec.describe(), render(spec, upol, 0), render(spec, epol, 0));
            match got {
                Ok(Ok(Some(s))) => {
                    if !want {
                        st.failures.push(("C02.a".into(), format!("{}: opened although the user policy covers no conjunction", desc())));
                    } else if &s.to_vec() != secret {
                        st.failures.push(("C01.x".into(), format!("{}: returned a secret different from the encapsulated one", desc())));
                    } else {
                        st.opened += 1;
                        if upol.len() == 1 && epol.len() == 1 {
                            for (di, d) in spec.dims.iter().enumerate() {
                                if d.ordered {
                                    if let (Some(a), Some(e)) = (upol[0][di], epol[0][di]) {
                                        if e < a {
                                            st.lower_opened_by_higher += 1;
                                        }
                                    }
                                }
                            }
                        }
                    }
                }
                Ok(Ok(None)) => {
                    if want {
                        st.failures.push(("C01.a".into(), format!("{}: not opened although the user policy covers a conjunction", desc())));
                    } else {
                        st.refused += 1;
                        if upol.len() == 1 && epol.len() == 1 {
                            for (di, d) in spec.dims.iter().enumerate() {
                                if let (Some(a), Some(e)) = (upol[0][di], epol[0][di]) {
                                    if d.ordered && e > a {
                                        st.higher_refused_to_lower += 1;
                                    }
                                    if !d.ordered && e != a {
                                        st.sibling_refused += 1;
                                    }
                                }
                            }
                        }
                    }
                }
                Ok(Err(e)) => st.failures.push(("C09.d".into(), format!("{}: decaps returned Err({e})", desc()))),
                Err(_) => st.failures.push(("C09.p".into(), format!("{}: decaps panicked", desc()))),
            }
            if st.failures.len() > 50 {
                return st;
            }
        }
    }
    st
}

pub fn check(prop: &str, tier: &str, owned: &[&str]) -> i32 {
    let mut run = Run::new(prop, tier, "exploration");
    part(&mut run, tier == "thorough", owned);
    run.finish()
}

/// Runs the matrix and records coverage in `run`.
pub fn part(run: &mut Run, thorough: bool, owned: &[&str]) {
    part_stride(run, thorough, owned, 1)
}

/// Same with every `stride`-th structure only (always keeping the special wide / big / odd ones).
pub fn part_stride(run: &mut Run, thorough: bool, owned: &[&str], stride: usize) {
    // the second configuration (thorough tier) runs the quick family: its purpose is to cover
    // the other curve / KEM, not to repeat the large enumeration
    let family_thorough = thorough && !crate::common::is_sub();
    let mut specs = enumerate_structures(family_thorough);
    specs.sort_by_key(StructSpec::omega);
    if stride > 1 {
        let mut i = 0usize;
        specs.retain(|s| {
            i += 1;
            s.omega() > 40 || s.dims.iter().any(|d| d.attrs.len() > 3) || i % stride == 0
        });
    }
    if crate::common::is_sub() && !thorough {
        // reduced run on the second configuration in the quick tier: every 6th structure
        specs = specs.into_iter().step_by(6).collect();
    }
    let cap: f64 = std::env::var("VERIF_CAP_SECS").ok().and_then(|s| s.parse().ok()).unwrap_or(if thorough { 720.0 } else { 50.0 });
    let t0 = std::time::Instant::now();
    let skipped = std::sync::atomic::AtomicUsize::new(0);
    let results = par_map(&specs, |_, s| {
        if t0.elapsed().as_secs_f64() > cap {
            skipped.fetch_add(1, std::sync::atomic::Ordering::Relaxed);
            return CellStats::default();
        }
        run_structure(s, thorough)
    });
    let skipped = skipped.into_inner();
    let mut tot = CellStats::default();
    let mut distinct = 0u64;
    let mut foreign: BTreeMap<String, u64> = BTreeMap::new();
    for (spec, r) in specs.iter().zip(&results) {
        tot.cells += r.cells;
        tot.opened += r.opened;
        tot.refused += r.refused;
        tot.lower_opened_by_higher += r.lower_opened_by_higher;
        tot.higher_refused_to_lower += r.higher_refused_to_lower;
        tot.sibling_refused += r.sibling_refused;
        tot.hybrid_encs += r.hybrid_encs;
        tot.classic_encs += r.classic_encs;
        tot.flavour_checks += r.flavour_checks;
        tot.shape_checks += r.shape_checks;
        if r.opened > 0 && (r.refused > 0 || spec.omega() <= 2) {
            distinct += 1;
        }
        for (c, m) in &r.failures {
            if owned.iter().any(|p| c.starts_with(p)) {
                run.report(None, c, m, json!({"engine": "polmat", "config": wire::NAME, "structure": spec.describe()}));
            } else {
                *foreign.entry(c.clone()).or_insert(0) += 1;
            }
        }
    }
    for spec in specs.iter().step_by((specs.len() / 6).max(1)) {
        let pols = policies(spec, thorough);
        run.sample(json!({"structure": spec.describe(), "omega": spec.omega(), "policies": pols.len(), "example_user_policy": render(spec, &pols[pols.len() / 2], 1), "example_encryption_policy": render(spec, &pols[pols.len() - 1], 2)}));
    }
    run.set("evaluations", json!(tot.cells));
    run.set("distinct_nontrivial", json!(distinct));
    run.set("rule", json!("every structure of the bounded family (1-3 dimensions, anarchy/hierarchy, 1-3 attributes, hint assignments, insertion scripts so that rank != insertion order != id order != name order; variants: master and public key replaced by their deserialised serialisation before use; an extra attribute inserted at every rank and deleted again before the update) is built through the public API; every single-conjunction policy, pairs of conjunctions in alternating textual order (all pairs when |Omega| <= 16, adjacent and every-7th pairs above; P2 x P2 only when all pairs) and triples (all when |Omega| <= 6, one in five when |Omega| <= 9) are used both as user policy (one real key each) and as encryption policy (one real encapsulation each); the full decaps matrix is evaluated against the name-level cover relation. An evaluation is one decaps cell; distinct_nontrivial counts structures whose matrix contains both outcomes"));
    run.set("structures", json!(specs.len()));
    run.set("cells_opened", json!(tot.opened));
    run.set("cells_refused", json!(tot.refused));
    run.set("lower_hierarchical_opened_by_higher", json!(tot.lower_opened_by_higher));
    run.set("higher_hierarchical_refused_to_lower", json!(tot.higher_refused_to_lower));
    run.set("sibling_refused", json!(tot.sibling_refused));
    run.set("hybridized_encapsulations", json!(tot.hybrid_encs));
    run.set("classic_encapsulations", json!(tot.classic_encs));
    run.set("flavour_checks", json!(tot.flavour_checks));
    run.set("policy_shape_equivalence_checks", json!(tot.shape_checks));
    run.set("clause_failures_owned_by_other_properties", json!(foreign));
    run.set("exhaustive", json!(skipped == 0));
    run.set("structures_skipped_by_wall_cap", json!(skipped));
    run.assume("small scope: structures up to 3 dimensions x 3 attributes; policies of at most three conjunctions");
    run.assume("tag / scalar collisions are impossible");
    if tot.opened == 0 || tot.refused == 0 || tot.lower_opened_by_higher == 0 || tot.higher_refused_to_lower == 0 || tot.sibling_refused == 0 || tot.hybrid_encs == 0 || tot.classic_encs == 0 {
        crate::common::machinery("polmat driver is vacuous (an outcome class was never observed)");
    }
}
