//! Explicit-state breadth-first exploration of API histories. Every transition executes the
//! real library call on real objects (world.rs); states are de-duplicated on a canonical
//! rendering of (model state, observed implementation abstraction, provenance).

use std::collections::{BTreeMap, HashSet};
use std::fmt::Write as _;
use std::time::Instant;

use serde_json::json;

use crate::common::{hash128, machinery, par_map, Run};
use crate::model::*;
use crate::probes;
use crate::world::{Failure, Mode, Op, Tags, World};

#[derive(Clone)]
pub struct Family {
    pub name: &'static str,
    pub init: Vec<Op>,
    pub alphabet: Vec<Op>,
    pub enc_menu: Vec<&'static str>,
    pub tags: Tags,
    /// maximum number of round-trip / restore operations per history (deviation bound)
    pub rt_bound: usize,
    pub max_usks: usize,
    pub rt_encs: bool,
    pub probes: &'static [&'static str],
}

impl Family {
    pub fn wants(&self, probe: &str) -> bool {
        self.probes.contains(&probe)
    }
}

fn ops(list: &[&str]) -> Vec<Op> {
    list.iter().map(|s| Op::parse(s).unwrap_or_else(|e| machinery(&format!("bad op {s}: {e}")))).collect()
}

pub fn w_init(hi_hybrid: bool) -> Vec<Op> {
    ops(&[
        "add-dim H hierarchy",
        "add H::lo classic",
        if hi_hybrid { "add H::hi hybrid after lo" } else { "add H::hi classic after lo" },
        "add-dim A anarchy",
        "add A::x classic",
        "add A::y classic",
        "update",
        "keygen A::x && H::hi",
        "keygen A::y",
    ])
}

const ROT_POLICIES: [&str; 6] = ["A::x", "A::x && H::lo", "A::x && H::hi", "H::lo", "A::y", "*"];
const ROT_MENU: [&str; 6] = ["A::x", "A::x && H::hi", "H::lo", "A::y", "A::x || A::y", "*"];

pub fn family(name: &str) -> Family {
    let refresh3 = ["refresh 0 keep", "refresh 0 drop", "refresh 1 keep", "refresh 1 drop", "refresh 2 keep", "refresh 2 drop"];
    match name {
        "rot" => {
            let mut a: Vec<String> = vec![];
            a.extend(ROT_POLICIES.iter().map(|p| format!("rekey {p}")));
            a.extend(ROT_POLICIES.iter().map(|p| format!("prune {p}")));
            a.extend(refresh3.iter().map(|s| s.to_string()));
            a.push("keygen A::x && H::hi".into());
            // a master-key update between rotations must not disturb the chains
            a.push("update".into());
            Family {
                name: "rot",
                init: w_init(true),
                alphabet: ops(&a.iter().map(String::as_str).collect::<Vec<_>>()),
                enc_menu: ROT_MENU.to_vec(),
                tags: Tags { open: "C04.a", deny: "C04.b" },
                rt_bound: 0,
                max_usks: 3,
                rt_encs: false,
                probes: &["tenant"],
            }
        }
        "rotdel" => {
            let mut a: Vec<String> = vec![];
            a.extend(["A::x", "A::x && H::lo", "H::lo", "*"].iter().map(|p| format!("rekey {p}")));
            a.extend(["A::x", "A::x && H::lo", "H::lo", "*"].iter().map(|p| format!("prune {p}")));
            a.extend(refresh3[..4].iter().map(|s| s.to_string()));
            a.extend(["del A::x", "del H::lo", "del H::hi", "del-dim A", "add A::z classic", "add H::mid classic after lo", "update"].iter().map(|s| s.to_string()));
            Family {
                name: "rotdel",
                init: w_init(true),
                alphabet: ops(&a.iter().map(String::as_str).collect::<Vec<_>>()),
                enc_menu: ROT_MENU.to_vec(),
                tags: Tags { open: "C05.c", deny: "C05.b" },
                rt_bound: 0,
                max_usks: 2,
                rt_encs: false,
                probes: &["tenant"],
            }
        }
        "emptyh" => Family {
            name: "emptyh",
            // a hierarchy that is still EMPTY when the master key is stored and reloaded, and that
            // is emptied again by deletions: levels are added afterwards and keys for the upper
            // levels must cover the lower ones
            // (three dimensions: a key generated while H is empty must still hold the combinations of
            // its attribute with the third dimension)
            init: ops(&["add-dim A anarchy", "add A::x classic", "add-dim B anarchy", "add B::u classic", "add-dim H hierarchy", "update", "keygen A::x"]),
            alphabet: ops(&[
                "rt-msk",
                "del-dim H",
                "add-dim H anarchy",
                "add-dim H hierarchy",
                "add H::lo classic",
                "add H::hi classic after lo",
                "add H::mid hybrid after lo",
                "del H::lo",
                "del H::hi",
                "rename H::lo l0",
                "update",
                "keygen H::hi",
                "keygen H::mid && A::x",
                "refresh 1 keep",
                "refresh 1 drop",
            ]),
            enc_menu: vec!["A::x", "H::lo", "H::mid", "H::hi", "H::l0", "A::x && H::lo", "A::x && H::hi", "A::x && B::u", "B::u && H::hi", "*"],
            tags: Tags { open: "C03.a", deny: "C03.a" },
            rt_bound: 2,
            max_usks: 3,
            rt_encs: false,
            probes: &[],
        },
        "edit" => Family {
            name: "edit",
            // three hierarchy levels and a key for the middle one: deletions below / above it
            // exercise order-preserving removal and name -> id lookups after a removal
            init: ops(&[
                "add-dim H hierarchy",
                "add H::lo classic",
                "add H::hi classic after lo",
                "add H::mid classic after lo",
                "add-dim A anarchy",
                "add A::x classic",
                "add A::y classic",
                "update",
                "keygen A::x && H::hi",
                "keygen A::y",
                "keygen H::mid",
            ]),
            alphabet: ops(&[
                "add A::z classic",
                "add A::z hybrid",
                "add H::top classic after hi",
                "add H::bot classic",
                "del H::mid",
                "add-dim B anarchy",
                "add B::u classic",
                "del A::x",
                "del A::y",
                "del H::lo",
                "del H::hi",
                "del-dim A",
                "rename A::x w",
                "rename H::lo l0",
                "disable A::y",
                "disable H::hi",
                "update",
                "keygen A::x",
                "keygen A::z",
                "keygen H::hi",
                "keygen A::y && H::lo",
                "refresh 0 keep",
                "refresh 0 drop",
                "refresh 1 keep",
                "refresh 1 drop",
                "refresh 2 keep",
                "refresh 2 drop",
                "refresh 3 keep",
            ]),
            enc_menu: vec!["A::x", "A::y", "A::z", "A::w", "H::lo", "H::hi", "H::mid", "H::bot", "H::top", "H::l0", "B::u", "A::x && H::hi", "A::y && H::lo", "A::z && H::mid", "A::z && H::bot", "*"],
            tags: Tags { open: "C03.a", deny: "C03.a" },
            rt_bound: 0,
            max_usks: 4,
            rt_encs: false,
            probes: &["tenant"],
        },
        "dis" => {
            let mut a: Vec<String> = vec!["disable A::y".into(), "disable H::hi".into(), "update".into(), "rederive".into(), "rt-msk".into(), "add H::mid classic after lo".into(), "del H::lo".into(), "disable H::mid".into(), "rename A::y q".into(), "rename H::hi top".into()];
            a.extend(["A::y", "A::x", "H::hi", "*"].iter().map(|p| format!("rekey {p}")));
            a.extend(["A::y", "H::hi", "*"].iter().map(|p| format!("prune {p}")));
            a.push("keygen A::y && H::hi".into());
            a.extend(refresh3.iter().map(|s| s.to_string()));
            Family {
                name: "dis",
                // A::hi next to H::hi: the same attribute name in two dimensions
                init: { let mut i = w_init(true); i.extend(ops(&["add A::hi classic", "update"])); i },
                alphabet: ops(&a.iter().map(String::as_str).collect::<Vec<_>>()),
                enc_menu: vec!["A::x", "A::y", "H::hi", "H::lo", "H::mid", "A::hi", "A::hi && H::hi", "H::hi && A::hi", "A::x && H::hi", "A::y && H::lo", "A::y && H::mid", "A::x || A::y", "A::q", "A::q && H::lo", "H::top", "A::x && H::top", "*"],
                tags: Tags { open: "C06.c", deny: "C06.e" },
                rt_bound: 2,
                max_usks: 3,
                rt_encs: false,
                probes: &["tenant"],
            }
        }
        "rt" => {
            let mut a: Vec<String> = vec!["rt-msk".into(), "rt-usk 0".into(), "rt-usk 1".into(), "rt-mpk 0".into(), "rt-mpk 1".into(), "rederive".into()];
            a.extend(["A::x", "A::x && H::hi", "*"].iter().map(|p| format!("rekey {p}")));
            a.extend(["A::x", "*"].iter().map(|p| format!("prune {p}")));
            a.extend(["add A::z hybrid", "add H::mid classic after lo", "del A::y", "rename H::lo l0", "disable A::y", "update", "keygen A::x && H::hi"].iter().map(|s| s.to_string()));
            a.extend(refresh3[..4].iter().map(|s| s.to_string()));
            Family {
                name: "rt",
                init: w_init(true),
                alphabet: ops(&a.iter().map(String::as_str).collect::<Vec<_>>()),
                enc_menu: vec!["A::x", "A::y", "A::z", "H::lo", "H::l0", "H::mid", "H::hi", "A::x && H::hi", "A::x || A::y", "*"],
                tags: Tags { open: "C13.o", deny: "C13.o" },
                rt_bound: 1,
                max_usks: 3,
                rt_encs: true,
                probes: &["headers"],
            }
        }
        "trace" => {
            let mut a: Vec<String> = vec!["keygen A::x".into(), "keygen H::lo".into(), "keygen *".into(), "snapshot".into(), "restore".into(), "rt-msk".into(), "rt-usk 0".into(), "rt-usk 2".into(), "rekey A::x".into(), "rekey *".into()];
            a.extend(["refresh 0 keep", "refresh 1 drop", "refresh 2 keep", "refresh 2 drop", "refresh 3 keep", "refresh 3 drop"].iter().map(|s| s.to_string()));
            Family {
                name: "trace",
                // the master key is snapshotted in the initial world: every key issued later is
                // unknown to the restored master key
                init: { let mut i = w_init(false); i.extend(ops(&["snapshot"])); i },
                alphabet: ops(&a.iter().map(String::as_str).collect::<Vec<_>>()),
                enc_menu: vec!["A::x", "A::y", "H::lo", "*"],
                tags: Tags { open: "C17.o", deny: "C17.o" },
                rt_bound: 3,
                max_usks: 4,
                rt_encs: false,
                probes: &["foreign"],
            }
        }
        "recaps" => {
            let mut a: Vec<String> = vec![];
            a.extend(["A::x", "A::y", "A::x && H::hi", "*"].iter().map(|p| format!("rekey {p}")));
            a.extend(["A::x", "A::y", "*"].iter().map(|p| format!("prune {p}")));
            a.extend(["disable A::y", "disable H::hi", "del A::y", "del H::lo", "del-dim A", "update"].iter().map(|s| s.to_string()));
            a.extend(refresh3[..4].iter().map(|s| s.to_string()));
            Family {
                name: "recaps",
                init: w_init(true),
                alphabet: ops(&a.iter().map(String::as_str).collect::<Vec<_>>()),
                enc_menu: vec!["A::x", "A::x || A::y", "A::x && H::hi || A::y && H::lo", "A::y", "H::hi", "A::x || A::y || H::lo || H::hi", "*"],
                tags: Tags { open: "C18.o", deny: "C18.o" },
                rt_bound: 0,
                max_usks: 2,
                rt_encs: false,
                probes: &["recaps"],
            }
        }
        "recapsrt" => {
            // re-encapsulation by a master key that was stored and reloaded, after a right was
            // re-keyed and then disabled, and after a disabled attribute was renamed
            Family {
                name: "recapsrt",
                init: { let mut i = w_init(true); i.extend(ops(&["rekey A::y", "refresh 1 keep"])); i },
                alphabet: ops(&["disable A::y", "disable H::hi", "update", "rt-msk", "rekey A::y", "rename A::y q", "refresh 1 keep"]),
                enc_menu: vec!["A::x", "A::x || A::y", "A::y", "A::q", "A::x || A::q", "H::hi", "*"],
                tags: Tags { open: "C18.o", deny: "C18.o" },
                rt_bound: 1,
                max_usks: 2,
                rt_encs: false,
                probes: &["recaps"],
            }
        }
        "rotsnap" => {
            // rotation across a saved and restored master key, and across re-imported user keys
            let mut f = family("rot");
            f.name = "rotsnap";
            f.init.extend(ops(&["snapshot"]));
            f.alphabet = ops(&[
                "rekey A::x", "rekey *", "rekey A::y", "prune A::x", "restore", "rt-usk 0", "rt-usk 1", "rt-msk",
                "refresh 0 keep", "refresh 0 drop", "refresh 1 keep", "refresh 2 keep", "keygen A::x && H::hi",
            ]);
            f.rt_bound = 2;
            f
        }
        "auth" => {
            // C01 / C02 over histories: authorisation decisions of keys that have been through
            // rotations and refreshes (the initial world already holds a refreshed key with two
            // revisions and a stale one)
            let mut f = family("rot");
            f.name = "auth";
            f.init.extend(ops(&["rekey A::x", "refresh 0 keep"]));
            f.tags = Tags { open: "C01.h", deny: "C02.h" };
            f
        }
        "hyb" => Family {
            // flavours across re-creation of attributes: the attribute created last (highest id) is
            // hybridized and held by a key; deleting and re-creating it with another hint must
            // leave every right with the flavour its attributes ask for (explored under the
            // semantics of the listed id-reuse finding, which the model follows)
            name: "hyb",
            init: ops(&[
                "add-dim H hierarchy",
                "add H::lo classic",
                "add H::hi classic after lo",
                "add-dim A anarchy",
                "add A::x classic",
                "add A::y hybrid",
                "update",
                "keygen A::x && H::hi",
                "keygen A::y",
            ]),
            alphabet: ops(&[
                "del A::y", "add A::z classic", "add A::z hybrid", "add A::y classic", "update", "rekey A::x", "rekey *", "rt-msk",
                "refresh 0 keep", "refresh 0 drop", "refresh 1 keep", "refresh 1 drop", "keygen A::z",
            ]),
            enc_menu: vec!["A::x", "A::y", "A::z", "H::hi", "A::y && H::lo", "A::z && H::lo", "*"],
            tags: Tags { open: "C03.a", deny: "C03.a" },
            rt_bound: 1,
            max_usks: 3,
            rt_encs: false,
            probes: &["tenant"],
        },
        "pke" => {
            // C12 over histories: long-lived PKE ciphertexts decrypted again after every operation
            let mut f = family("rotdel");
            f.name = "pke";
            f.probes = &["pke", "tenant"];
            f
        }
        "big" => {
            // more than 128 attributes (two-byte identifiers in rights), ~400 rights: used by the
            // long-path runs only (a BFS over it would be too slow)
            let mut init: Vec<String> = vec!["add-dim W anarchy".into()];
            for i in 0..130 {
                init.push(format!("add W::w{i} {}", if i % 64 == 0 { "hybrid" } else { "classic" }));
            }
            init.extend(["add-dim Q hierarchy", "add Q::m classic", "add Q::z hybrid after m", "update", "keygen W::w129 && Q::z", "keygen W::w0", "keygen *"].iter().map(|s| s.to_string()));
            Family {
                name: "big",
                init: ops(&init.iter().map(String::as_str).collect::<Vec<_>>()),
                alphabet: vec![],
                enc_menu: vec!["W::w129", "W::w128 && Q::m", "W::w0", "W::w127 || W::w128 || W::w129", "Q::z", "W::w130", "*"],
                tags: Tags { open: "C03.a", deny: "C03.a" },
                rt_bound: 4,
                max_usks: 4,
                rt_encs: false,
                probes: &[],
            }
        }
        "recapshyb" => {
            // re-encapsulation across a change of flavour: the hybridized attribute created last
            // can be deleted and re-created as classic (explored under the id-reuse finding)
            let mut f = family("hyb");
            f.name = "recapshyb";
            f.alphabet = ops(&["rekey A::y", "rekey *", "prune A::y", "del A::y", "add A::y classic", "add A::z classic", "update", "refresh 1 keep", "refresh 1 drop"]);
            f.enc_menu = vec!["A::y", "A::y && H::lo", "A::x || A::y", "A::z", "*"];
            f.tags = Tags { open: "C18.o", deny: "C18.o" };
            f.rt_bound = 0;
            f.probes = &["recaps"];
            f
        }
        "disrot" => {
            // rotation meets deactivation: the initial world already holds a re-keyed right whose
            // key kept the old secret, so that disable / delete + update + prune + refresh
            // sequences are reached within four steps
            let mut init = w_init(true);
            init.extend(ops(&["rekey A::y", "refresh 1 keep"]));
            Family {
                name: "disrot",
                init,
                alphabet: ops(&[
                    "disable A::y", "disable H::hi", "del A::y", "add H::mid classic after lo", "update", "rekey A::y", "rekey *", "prune A::y", "prune *",
                    "refresh 0 keep", "refresh 0 drop", "refresh 1 keep", "refresh 1 drop", "keygen A::y",
                ]),
                enc_menu: vec!["A::x", "A::y", "H::hi", "A::y && H::lo", "A::y && H::mid", "A::x || A::y", "*"],
                tags: Tags { open: "C04.a", deny: "C04.b" },
                rt_bound: 0,
                max_usks: 3,
                rt_encs: false,
                probes: &[],
            }
        }
        "args" => {
            let mut f = family("edit");
            f.name = "args";
            f.alphabet.extend(ops(&[
                "add-dim A anarchy",
                "add-dim H hierarchy",
                "add-dim A hierarchy",
                "del-dim Z",
                "add Z::a classic",
                "add A::x classic",
                "add H::lo hybrid",
                "add H::new classic after nope",
                "add A::v classic after nope",
                "del Z::a",
                "del A::nope",
                "rename Z::a q",
                "rename A::nope q",
                "rename A::x y",
                "rename H::lo hi",
                "disable Z::a",
                "disable A::nope",
                "rekey A::nope",
                "rekey Z::a",
                "rekey *",
                "rekey A::x",
                "prune A::nope",
                "prune *",
                "keygen A::nope",
                "keygen Z::a && A::x",
            ]));
            f.enc_menu.extend(["Z::a", "A::nope", "A::x && A::y", "A::v"]);
            f.probes = &["forged", "tenant"];
            f
        }
        "failrot" => {
            let mut f = family("rot");
            f.name = "failrot";
            f.alphabet.extend(ops(&["add A::z classic", "disable A::y", "del A::x", "update", "restore", "prune A::x || A::nope", "rekey A::x || Z::a", "keygen A::y || A::nope", "prune A::nope || A::x"]));
            f.init.extend(ops(&["snapshot"]));
            f.rt_bound = 1;
            f.probes = &["forged", "tenant"];
            f
        }
        _ => machinery(&format!("unknown family {name}")),
    }
}

/// Canonical rendering of a world (the de-duplication key before hashing).
pub fn state_key(w: &World, rt_used: usize) -> String {
    state_key_opt(w, rt_used, true)
}

pub fn state_key_opt(w: &World, rt_used: usize, prov: bool) -> String {
    let tok = |t: Tok| -> String { w.tok_id.get(&t).map(|i| i.to_string()).unwrap_or(format!("t{t}")) };
    let right = |r: &RightM| -> String {
        let mut ids: Vec<String> = r.iter().map(|t| tok(*t)).collect();
        ids.sort();
        ids.join(".")
    };
    let mut vmap: BTreeMap<Ver, usize> = BTreeMap::new();
    let mut ren = |v: Ver| -> usize {
        let n = vmap.len();
        *vmap.entry(v).or_insert(n)
    };
    let mut s = String::new();
    let _ = write!(s, "ST {} |", w.model.st.canon(&tok));
    let mut rights: Vec<(String, &Vec<ChainEntry>)> = w.model.master.iter().map(|(r, c)| (right(r), c)).collect();
    rights.sort_by(|a, b| a.0.cmp(&b.0));
    for (r, c) in rights {
        let _ = write!(s, " {r}:");
        for e in c {
            let _ = write!(s, "{}{}{},", ren(e.ver), if e.activated { "" } else { "!" }, if e.hybrid { "h" } else { "" });
        }
    }
    let _ = write!(s, " | reg {} rtm {} rt {} |", w.model.registered, prov && w.msk_roundtripped, rt_used);
    for u in &w.usks {
        let mut held: Vec<(String, &Vec<Ver>)> = u.model.held.iter().map(|(r, v)| (right(r), v)).collect();
        held.sort_by(|a, b| a.0.cmp(&b.0));
        let _ = write!(s, " U{}{}[", if u.known { "" } else { "?" }, if prov && u.roundtripped { "r" } else { "" });
        for (r, vs) in held {
            let _ = write!(s, "{r}:");
            for v in vs {
                let _ = write!(s, "{},", ren(*v));
            }
            s.push(' ');
        }
        if !u.model.classic.is_empty() && u.model.classic.iter().any(|(r, v)| w.model.master.get(r).and_then(|c| c.iter().find(|e| e.ver == *v)).is_some_and(|e| e.hybrid)) {
            s.push_str("~flavour-mismatch");
        }
        s.push(']');
    }
    let mut mp: Vec<String> = vec![];
    for m in &w.mpks {
        let mut t = format!("{}{{{}}}", if prov && m.roundtripped { "r" } else { "" }, m.model.st.canon(&tok));
        let mut keys: Vec<(String, (Ver, bool))> = m.model.keys.iter().map(|(r, k)| (right(r), *k)).collect();
        keys.sort_by(|a, b| a.0.cmp(&b.0));
        for (r, (v, h)) in keys {
            let _ = write!(t, "{r}:{}{} ", ren(v), if h { "h" } else { "" });
        }
        mp.push(t);
    }
    mp.sort();
    let _ = write!(s, " | M {}", mp.join(";"));
    if let Some((_, m, known)) = &w.snapshot {
        let mut rights: Vec<(String, &Vec<ChainEntry>)> = m.master.iter().map(|(r, c)| (right(r), c)).collect();
        rights.sort_by(|a, b| a.0.cmp(&b.0));
        let _ = write!(s, " | SNAP {} reg {} {:?}", m.st.canon(&tok), m.registered, known);
        for (r, c) in rights {
            let _ = write!(s, " {r}:");
            for e in c {
                let _ = write!(s, "{},", ren(e.ver));
            }
        }
    }
    s
}

pub fn build(fam: &Family, hist: &[Op]) -> World {
    let mut w = World::new(&fam.enc_menu, fam.tags.clone());
    w.max_usks = fam.max_usks;
    w.rt_encs = fam.rt_encs;
    w.pke_probes = fam.wants("pke");
    w.tenant_probe = fam.wants("tenant");
    w.recaps_prime = fam.wants("recaps");
    for op in &fam.init {
        w.apply(op, Mode::Replay);
    }
    for op in hist {
        w.apply(op, Mode::Replay);
    }
    w
}

fn rt_used(hist: &[Op]) -> usize {
    hist.iter().filter(|o| o.is_rt()).count()
}

pub struct Outcome {
    pub key: String,
    pub failures: Vec<Failure>,
    pub ok: bool,
    pub counts: BTreeMap<&'static str, u64>,
    pub partial_chains: bool,
}

/// Runs `hist` then `op` (checked) on a fresh world.
pub fn run_transition(fam: &Family, hist: &[Op], op: &Op) -> Option<Outcome> {
    let mut w = build(fam, hist);
    // the explorer only expands prefixes whose failures were benign (see BENIGN)
    w.failures.retain(|f| !BENIGN.iter().any(|b| f.clause.starts_with(b)) && classify(f).is_none());
    if !w.failures.is_empty() {
        // a prefix that was clean when first explored must stay clean
        return Some(Outcome { key: String::new(), failures: std::mem::take(&mut w.failures).into_iter().map(|mut f| { f.msg = format!("(while replaying the prefix) {}", f.msg); f }).collect(), ok: false, counts: w.counts.clone(), partial_chains: false });
    }
    if !w.enabled(op) {
        return None;
    }
    if op.is_rt() && rt_used(hist) >= fam.rt_bound {
        return None;
    }
    let key_before = if matches!(op, Op::RtMsk | Op::RtUsk(_) | Op::RtMpk(_)) { Some(abstract_key(&w)) } else { None };
    w.counts.clear();
    let ok = w.apply(op, Mode::Check);
    for p in fam.probes {
        probes::run(&mut w, p, op);
    }
    if let Some(kb) = key_before {
        let ka = abstract_key(&w);
        if ka != kb {
            w.fail("C13.o", format!("{op}: the decoded state changed across a serialisation round-trip"));
        }
    }
    let mut new_hist_rt = rt_used(hist);
    if op.is_rt() {
        new_hist_rt += 1;
    }
    let partial = w.usks.iter().any(|u| {
        let lens: HashSet<usize> = u.model.held.values().map(Vec::len).collect();
        lens.len() > 1
    });
    // In-memory state that is not part of the serialised form (a counter, a cache inside a key
    // object) is reset by a reload and rebuilt by the operations that follow it: "just reloaded"
    // and "operated on since the reload" are different states even when they decode alike, so
    // `... ; del X ; rt-msk` is not merged with `... ; rt-msk ; del X`.
    let just_reloaded = matches!(op, Op::RtMsk | Op::Restore);
    let key = format!("{}|just-reloaded={}", state_key(&w, new_hist_rt), just_reloaded && new_hist_rt > 0);
    Some(Outcome { key, failures: std::mem::take(&mut w.failures), ok, counts: w.counts.clone(), partial_chains: partial })
}

/// The state key without provenance (what a round-trip must preserve).
fn abstract_key(w: &World) -> String {
    state_key_opt(w, 0, false)
}

/// Clause prefixes whose failure does not break the model/implementation lock-step.
const BENIGN: [&str; 12] = ["C13.e", "C13.l", "C13.d", "C13.o", "C17.", "C11.", "C16.", "C01.x", "C03.a", "C04.a", "C04.b", "C06.c"];

/// Which listed open finding (if any) explains this failure.
pub fn classify(f: &Failure) -> Option<&'static str> {
    if f.clause == "C03.b" && f.msg.contains("the id of a deleted attribute") {
        return Some("C03-id-reuse-after-delete");
    }
    None
}

pub struct ExploreStats {
    pub states: u64,
    pub transitions: u64,
    pub depth_completed: usize,
    pub capped: bool,
    pub tainted: u64,
    pub foreign: BTreeMap<String, u64>,
    pub counts: BTreeMap<&'static str, u64>,
    pub outcomes: u64,
    pub partial_chain_states: u64,
    pub err_transitions: u64,
    pub decoder_disagreements: u64,
    pub intermittent: u64,
}

/// Breadth-first exploration up to `max_depth`; `owned` are the clause prefixes this check
/// reports. Returns the statistics; violations go to `run`.
pub fn explore(run: &mut Run, fam: &Family, max_depth: usize, cap_secs: f64, owned: &[&str]) -> ExploreStats {
    let t0 = Instant::now();
    let mut st = ExploreStats { states: 1, transitions: 0, depth_completed: 0, capped: false, tainted: 0, foreign: BTreeMap::new(), counts: BTreeMap::new(), outcomes: 0, partial_chain_states: 0, err_transitions: 0, decoder_disagreements: 0, intermittent: 0 };
    let mut seen: HashSet<u128> = HashSet::new();
    let mut outcome_kinds: HashSet<u128> = HashSet::new();

    // depth 0: the initial world, fully checked
    {
        let mut w = World::new(&fam.enc_menu, fam.tags.clone());
        w.max_usks = fam.max_usks;
        w.rt_encs = fam.rt_encs;
        w.full_matrix = true;
        w.pke_probes = fam.wants("pke");
        w.tenant_probe = fam.wants("tenant");
        w.recaps_prime = fam.wants("recaps");
        for op in &fam.init {
            w.apply(op, Mode::Check);
        }
        for p in fam.probes {
            probes::run(&mut w, p, &Op::Update);
        }
        let fails = std::mem::take(&mut w.failures);
        if handle_failures(run, fam, &[], None, &fails, owned, &mut st) {
            return st;
        }
        seen.insert(hash128(state_key(&w, 0).as_bytes()));
        for (k, v) in &w.counts {
            *st.counts.entry(k).or_insert(0) += v;
        }
    }

    let mut frontier: Vec<Vec<Op>> = vec![vec![]];
    let mut stop = false;
    for depth in 1..=max_depth {
        if frontier.is_empty() {
            st.depth_completed = max_depth;
            break;
        }
        // chunked so that the wall-time cap is honoured between chunks
        let mut next: Vec<Vec<Op>> = vec![];
        let chunk = 64usize;
        let mut level_done = true;
        for part in frontier.chunks(chunk) {
            if t0.elapsed().as_secs_f64() > cap_secs {
                st.capped = true;
                level_done = false;
                break;
            }
            let jobs: Vec<(usize, usize)> = (0..part.len()).flat_map(|i| (0..fam.alphabet.len()).map(move |j| (i, j))).collect();
            let results = par_map(&jobs, |k, (i, j)| {
                let out = run_transition(fam, &part[*i], &fam.alphabet[*j]);
                // determinism self-check on every 64th transition: a second execution on fresh
                // objects (fresh randomness, fresh hash orders) must reach the same canonical
                // state with the same clause verdicts
                if k % 64 == 0 {
                    let again = run_transition(fam, &part[*i], &fam.alphabet[*j]);
                    // (executions with clause failures are left to the violation logic: a defect
                    // may depend on the library's hash order, which is not controlled)
                    let same = match (&out, &again) {
                        (None, None) => true,
                        (Some(a), Some(b)) => !a.failures.is_empty() || !b.failures.is_empty() || (a.key == b.key && a.ok == b.ok),
                        _ => false,
                    };
                    if !same {
                        // not a verdict by itself; if the run ends without a violation of its own it
                        // is a machinery failure (see the end of `explore`), otherwise the violation
                        // stands (a defect may well be what makes the transition order-dependent)
                        let mut g = NONDET.lock().unwrap_or_else(|e| e.into_inner());
                        if g.is_none() {
                            *g = Some(format!("non-deterministic transition: [{}] then {}", part[*i].iter().map(|o| o.to_string()).collect::<Vec<_>>().join("; "), fam.alphabet[*j]));
                        }
                    }
                }
                out
            });
            for ((i, j), out) in jobs.iter().zip(results) {
                let Some(out) = out else { continue };
                st.transitions += 1;
                if !out.ok {
                    st.err_transitions += 1;
                }
                for (k, v) in &out.counts {
                    *st.counts.entry(k).or_insert(0) += v;
                }
                let op = &fam.alphabet[*j];
                if !out.failures.is_empty() {
                    if handle_failures(run, fam, &part[*i], Some(op), &out.failures, owned, &mut st) {
                        stop = true;
                        continue;
                    }
                    // A state is abandoned when model and implementation have diverged (or a
                    // listed finding fired). Failures of clauses owned by other properties that
                    // leave the lock-step intact (serialisation equality, tracing relation,
                    // flavours, decaps outcomes) do not stop the exploration: their consequences
                    // for THIS property are still to be seen.
                    let benign = out.failures.iter().all(|f| {
                        let known = classify(f).is_some_and(|id| run.findings.is_open(id).is_some());
                        known || (!owned.iter().any(|p| f.clause.starts_with(p)) && BENIGN.iter().any(|b| f.clause.starts_with(b)))
                    });
                    if !benign {
                        continue;
                    }
                }
                outcome_kinds.insert(hash128(format!("{op}|{}", out.ok).as_bytes()));
                let h = hash128(out.key.as_bytes());
                if seen.insert(h) {
                    st.states += 1;
                    if out.partial_chains {
                        st.partial_chain_states += 1;
                    }
                    let mut nh = part[*i].clone();
                    nh.push(op.clone());
                    if st.states % 997 == 1 || st.states < 6 {
                        run.sample(json!({"family": fam.name, "history": nh.iter().map(|o| o.to_string()).collect::<Vec<_>>(), "state": out.key.chars().take(400).collect::<String>()}));
                    }
                    next.push(nh);
                }
            }
            if stop && run.violations.len() >= 3 {
                break;
            }
        }
        if stop {
            break;
        }
        if !level_done {
            break;
        }
        st.depth_completed = depth;
        frontier = next;
    }
    st.outcomes = outcome_kinds.len() as u64;
    if let Some(m) = NONDET.lock().unwrap_or_else(|e| e.into_inner()).take() {
        if run.violations.is_empty() {
            machinery(&m);
        }
        run.set("nondeterministic_transition_seen", json!(m));
    }
    st
}

static NONDET: std::sync::Mutex<Option<String>> = std::sync::Mutex::new(None);

/// Returns true when a violation owned by this check was reported.
fn handle_failures(run: &mut Run, fam: &Family, hist: &[Op], op: Option<&Op>, fails: &[Failure], owned: &[&str], st: &mut ExploreStats) -> bool {
    let mut ops: Vec<String> = hist.iter().map(|o| o.to_string()).collect();
    if let Some(o) = op {
        ops.push(o.to_string());
    }
    let replay = json!({"engine": "histex", "family": fam.name, "config": crate::wire::NAME, "ops": ops});
    // the wire decoder is the observation channel of every histex check: a disagreement with
    // the library on the layout is C13's verdict to give; for any other check it is counted and,
    // if the run ends without a violation of its own, the run is a machinery failure (its
    // coverage is compromised), never a silent pass
    if !owned.iter().any(|p| p.starts_with("C13")) && fails.iter().any(|f| f.clause == "C13.w") {
        st.decoder_disagreements += 1;
    }
    // a listed finding taints the history whatever property is being checked
    let mut known_here = false;
    if let Some(id) = fails.iter().find_map(classify) {
        let f = fails.iter().find(|f| classify(f) == Some(id)).unwrap();
        if run.findings.is_open(id).is_some() {
            st.tainted += 1;
            known_here = true;
            if owned.iter().any(|p| f.clause.starts_with(p)) {
                run.report(Some(id), &f.clause, &format!("after [{}]: {}", ops.join("; "), f.msg), replay.clone());
            }
        }
    }
    let mut reported = false;
    for f in fails {
        if known_here && classify(f).is_some() {
            continue;
        }
        if owned.iter().any(|p| f.clause.starts_with(p)) {
            if !reported {
                // confirm on fresh worlds before reporting; a defect may depend on the
                // library's hash order (not controlled), so up to 8 replays are tried
                let mut confirmed = op.is_none();
                for _ in 0..8 {
                    if confirmed {
                        break;
                    }
                    let again = match op {
                        Some(o) => run_transition(fam, hist, o).map(|o| o.failures).unwrap_or_default(),
                        None => fails.to_vec(),
                    };
                    confirmed = again.iter().any(|g| g.clause == f.clause);
                }
                // The oracle is a deterministic function of what the library returned, so a clause
                // that fired did observe the real code misbehaving even when 8 fresh executions
                // of the same history behave: the outcome then depends on something the history
                // does not fix (hash order, random values inside the library). It is reported as
                // an intermittent violation (nothing fires at all on a tree where the property
                // holds).
                let note = if confirmed { String::new() } else { " [intermittent: 8 further executions of this history did not show it; the outcome depends on hash order or random values inside the library]".to_string() };
                if !confirmed {
                    st.intermittent += 1;
                }
                run.report(None, &f.clause, &format!("after [{}]: {}{note}", ops.join("; "), f.msg), replay.clone());
                reported = true;
            }
        } else {
            *st.foreign.entry(f.clause.clone()).or_insert(0) += 1;
        }
    }
    reported
}

pub fn stats_json(fam: &Family, st: &ExploreStats) -> serde_json::Value {
    json!({
        "family": fam.name,
        "alphabet": fam.alphabet.iter().map(|o| o.to_string()).collect::<Vec<_>>(),
        "encryption_menu": fam.enc_menu,
        "states": st.states,
        "transitions": st.transitions,
        "max_depth_completed": st.depth_completed,
        "wall_cap_hit": st.capped,
        "states_where_a_listed_finding_fired": st.tainted,
        "clause_failures_owned_by_other_properties": st.foreign,
        "distinct_transition_outcomes": st.outcomes,
        "states_with_partially_rotated_keys": st.partial_chain_states,
        "transitions_returning_err": st.err_transitions,
        "wire_decoder_disagreements": st.decoder_disagreements,
        "intermittent_violations": st.intermittent,
        "real_api_calls": st.counts,
    })
}

pub fn big_path() -> Vec<Op> {
    ops(&[
        "rekey W::w129",
        "refresh 0 keep",
        "rekey *",
        "refresh 0 keep",
        "refresh 2 drop",
        "prune W::w129",
        "refresh 0 keep",
        "add W::w130 classic",
        "rekey W::w0",
        "update",
        "keygen W::w130",
        "rt-msk",
        "disable W::w128",
        "update",
        "rekey W::w128",
        "rt-usk 0",
        "refresh 0 drop",
        "del W::w129",
        "update",
        "refresh 0 keep",
        "refresh 2 keep",
        "rename W::w127 w127bis",
        "del-dim Q",
        "update",
        "refresh 2 drop",
        "rekey *",
    ])
}

/// One long deterministic history, every step fully checked (for bounds that a BFS cannot
/// reach: many revisions of one right, many users).
pub fn run_path(run: &mut Run, fam_name: &str, path: &[Op], owned: &[&str]) -> (u64, BTreeMap<&'static str, u64>) {
    let fam = family(fam_name);
    let mut w = World::new(&fam.enc_menu, fam.tags.clone());
    w.max_usks = fam.max_usks.max(4);
    w.pke_probes = fam.wants("pke");
    w.tenant_probe = fam.wants("tenant");
    w.recaps_prime = fam.wants("recaps");
    for op in &fam.init {
        w.apply(op, Mode::Replay);
    }
    let mut steps = 0u64;
    for (i, op) in path.iter().enumerate() {
        if !w.enabled(op) {
            continue;
        }
        w.apply(op, Mode::Check);
        steps += 1;
        let fails = std::mem::take(&mut w.failures);
        if let Some(f) = fails.iter().find(|f| owned.iter().any(|p| f.clause.starts_with(p)) && classify(f).is_none()) {
            let ops: Vec<String> = path[..=i].iter().map(|o| o.to_string()).collect();
            run.report(None, &f.clause, &format!("long path, step {} ({}): {}", i + 1, op, f.msg), json!({"engine": "histex", "family": fam.name, "config": crate::wire::NAME, "ops": ops}));
            break;
        }
        if fails.iter().any(|f| !BENIGN.iter().any(|b| f.clause.starts_with(b)) && classify(f).is_none()) {
            break; // diverged on a clause owned by another property
        }
    }
    (steps, w.counts.clone())
}

/// A long history of which only every `every`-th step and the last `tail` steps are fully
/// checked; the others are executed with the lock-step comparison of the decoded master key and
/// user keys only (Mode::Replay), which is what makes hundreds of steps affordable.
pub fn run_path_sparse(run: &mut Run, fam_name: &str, path: &[Op], owned: &[&str], every: usize, tail: usize) -> u64 {
    let fam = family(fam_name);
    let mut w = World::new(&fam.enc_menu, fam.tags.clone());
    w.max_usks = fam.max_usks.max(4);
    for op in &fam.init {
        w.apply(op, Mode::Replay);
    }
    let mut steps = 0u64;
    for (i, op) in path.iter().enumerate() {
        if !w.enabled(op) {
            continue;
        }
        let full = i % every == every - 1 || i + tail >= path.len();
        w.apply(op, if full { Mode::Check } else { Mode::Replay });
        steps += 1;
        let fails = std::mem::take(&mut w.failures);
        if let Some(f) = fails.iter().find(|f| owned.iter().any(|p| f.clause.starts_with(p)) && classify(f).is_none()) {
            let ops: Vec<String> = path[..=i].iter().map(|o| o.to_string()).collect();
            run.report(None, &f.clause, &format!("long sparse path, step {} ({}): {}", i + 1, op, f.msg), json!({"engine": "histex", "family": fam.name, "config": crate::wire::NAME, "ops": ops}));
            break;
        }
        if fails.iter().any(|f| !BENIGN.iter().any(|b| f.clause.starts_with(b)) && classify(f).is_none()) {
            break;
        }
    }
    steps
}

/// Replays one recorded history without the explorer; returns the failures of its last step.
pub fn replay(fam_name: &str, ops_s: &[String]) -> Vec<Failure> {
    let fam = family(fam_name);
    let all: Vec<Op> = ops_s.iter().map(|s| Op::parse(s).unwrap_or_else(|e| machinery(&e))).collect();
    if all.is_empty() {
        let mut w = World::new(&fam.enc_menu, fam.tags.clone());
        w.full_matrix = true;
        for op in &fam.init {
            w.apply(op, Mode::Check);
        }
        return w.failures;
    }
    let (last, hist) = all.split_last().unwrap();
    run_transition(&fam, hist, last).map(|o| o.failures).unwrap_or_default()
}
