//! C14: untrusted bytes never crash, hang or over-allocate. Exhaustive single-fault and
//! structural-fault enumeration on serialised objects, each mutant parsed *and used* in a
//! sandboxed worker process (address-space limit, counting allocator, catch_unwind, watchdog).

use std::io::{Read, Write};
use std::os::fd::AsRawFd;
use std::panic::{catch_unwind, AssertUnwindSafe};
use std::process::{Child, ChildStdin, ChildStdout, Command, Stdio};
use std::sync::atomic::{AtomicUsize, Ordering};
use std::sync::Mutex;

use serde_json::json;

use cosmian_cover_crypt::{
    api::Covercrypt, traits::KemAc, AccessPolicy, AccessStructure, EncryptedHeader, EncryptionHint, MasterPublicKey, MasterSecretKey, QualifiedAttribute, UserSecretKey, XEnc,
};
use cosmian_crypto_core::bytes_ser_de::Serializable;

use crate::common::{machinery, nworkers, Run};
use crate::wire::{self, hex, unhex, Field, WEnc, WHeader, WMpk, WMsk, WUsk};
use crate::world::ser;

pub const TYPES: [&str; 6] = ["enc", "hdr", "usk", "mpk", "msk", "struct"];
const AS_LIMIT: u64 = 1 << 30;
const TIMEOUT_MS: i32 = 2000;

pub fn mem_bound(input_len: usize) -> u64 {
    // generous on purpose: a reader that reserves one in-memory element (a few hundred bytes)
    // per remaining input byte is still 'proportional to the input'; what the bound must catch
    // is memory decided by an announced count instead of by the bytes present
    256 * 1024 + 1024 * input_len as u64
}

// ---------------------------------------------------------------------------------------
// worker side

struct Ctx {
    cc: Covercrypt,
    usks: Vec<UserSecretKey>,
    encs: Vec<XEnc>,
}

fn read_exact_or_exit(r: &mut impl Read, buf: &mut [u8]) {
    if r.read_exact(buf).is_err() {
        std::process::exit(0);
    }
}

fn read_blob(r: &mut impl Read) -> Vec<u8> {
    let mut l = [0u8; 4];
    read_exact_or_exit(r, &mut l);
    let mut b = vec![0u8; u32::from_le_bytes(l) as usize];
    read_exact_or_exit(r, &mut b);
    b
}

/// status: 0 parsed and used, 1 rejected by the parser, 2 panic while parsing, 3 panic while using
fn handle(ctx: &Ctx, ty: u8, bytes: &[u8]) -> (u8, u64, u64) {
    crate::alloc::start();
    let mut status = 1u8;
    let mut parse_peak = 0u64;
    macro_rules! go {
        ($t:ty, $use:expr) => {{
            match catch_unwind(|| <$t>::deserialize(bytes)) {
                Err(_) => status = 2,
                Ok(Err(_)) => status = 1,
                Ok(Ok(v)) => {
                    parse_peak = crate::alloc::stop() as u64;
                    crate::alloc::start();
                    status = if catch_unwind(AssertUnwindSafe(|| $use(&v))).is_err() { 3 } else { 0 };
                }
            }
        }};
    }
    match ty {
        0 => go!(XEnc, |e: &XEnc| {
            let _ = e.tracing_level();
            let _ = e.count();
            for u in &ctx.usks {
                let _ = ctx.cc.decaps(u, e);
            }
            let _ = e.serialize();
        }),
        1 => go!(EncryptedHeader, |h: &EncryptedHeader| {
            for u in &ctx.usks {
                let _ = h.decrypt(&ctx.cc, u, None);
                let _ = h.decrypt(&ctx.cc, u, Some(b"ad"));
            }
            let _ = h.serialize();
        }),
        2 => go!(UserSecretKey, |u: &UserSecretKey| {
            let _ = u.tracing_level();
            let _ = u.count();
            for e in &ctx.encs {
                let _ = ctx.cc.decaps(u, e);
            }
            let _ = u.serialize();
        }),
        3 => go!(MasterPublicKey, |m: &MasterPublicKey| {
            let _ = m.tracing_level();
            let _ = m.access_structure.dimensions().count();
            let _ = m.access_structure.attributes().count();
            if let Ok(ap) = AccessPolicy::parse("*") {
                let _ = ctx.cc.encaps(m, &ap);
            }
            let _ = m.serialize();
        }),
        4 => go!(MasterSecretKey, |m: &MasterSecretKey| {
            let _ = m.access_structure.dimensions().count();
            let _ = m.access_structure.attributes().count();
            let _ = m.length();
            let _ = m.serialize();
            let _ = m.mpk();
        }),
        _ => go!(AccessStructure, |s: &AccessStructure| {
            let _ = s.dimensions().count();
            let _ = s.attributes().count();
            let _ = s.length();
            let _ = s.serialize();
        }),
    }
    let peak = crate::alloc::stop() as u64;
    if status == 0 || status == 3 {
        (status, parse_peak, peak)
    } else {
        (status, peak, 0)
    }
}

pub fn worker_main() -> i32 {
    unsafe {
        let lim = libc::rlimit { rlim_cur: AS_LIMIT, rlim_max: AS_LIMIT };
        libc::setrlimit(libc::RLIMIT_AS, &lim);
    }
    std::panic::set_hook(Box::new(|_| {}));
    let stdin = std::io::stdin();
    let mut inp = stdin.lock();
    let stdout = std::io::stdout();
    let mut out = stdout.lock();
    // context: n usks, n encs
    let mut n = [0u8; 2];
    read_exact_or_exit(&mut inp, &mut n);
    let mut ctx = Ctx { cc: Covercrypt::default(), usks: vec![], encs: vec![] };
    for _ in 0..n[0] {
        ctx.usks.push(UserSecretKey::deserialize(&read_blob(&mut inp)).expect("context usk"));
    }
    for _ in 0..n[1] {
        ctx.encs.push(XEnc::deserialize(&read_blob(&mut inp)).expect("context enc"));
    }
    loop {
        let mut ty = [0u8; 1];
        read_exact_or_exit(&mut inp, &mut ty);
        let bytes = read_blob(&mut inp);
        let (status, p1, p2) = handle(&ctx, ty[0], &bytes);
        let mut reply = [0u8; 17];
        reply[0] = status;
        reply[1..9].copy_from_slice(&p1.to_le_bytes());
        reply[9..17].copy_from_slice(&p2.to_le_bytes());
        if out.write_all(&reply).is_err() || out.flush().is_err() {
            return 0;
        }
    }
}

// ---------------------------------------------------------------------------------------
// supervisor side

#[derive(Clone, Debug, PartialEq, Eq)]
pub enum Verdict {
    Done { status: u8, parse_peak: u64, use_peak: u64 },
    Timeout,
    Died(String),
}

pub struct Worker {
    child: Child,
    stdin: ChildStdin,
    stdout: ChildStdout,
}

pub struct Context {
    pub usks: Vec<Vec<u8>>,
    pub encs: Vec<Vec<u8>>,
}

impl Worker {
    pub fn spawn(ctx: &Context) -> Worker {
        let exe = std::env::current_exe().unwrap_or_else(|e| machinery(&format!("current_exe: {e}")));
        let mut child = Command::new(exe).arg("worker").stdin(Stdio::piped()).stdout(Stdio::piped()).stderr(Stdio::null()).spawn().unwrap_or_else(|e| machinery(&format!("cannot spawn worker: {e}")));
        let mut stdin = child.stdin.take().unwrap();
        let stdout = child.stdout.take().unwrap();
        let mut hello = vec![ctx.usks.len() as u8, ctx.encs.len() as u8];
        for b in ctx.usks.iter().chain(ctx.encs.iter()) {
            hello.extend_from_slice(&(b.len() as u32).to_le_bytes());
            hello.extend_from_slice(b);
        }
        stdin.write_all(&hello).unwrap_or_else(|e| machinery(&format!("worker hello: {e}")));
        Worker { child, stdin, stdout }
    }

    pub fn exec(&mut self, ty: u8, bytes: &[u8]) -> Verdict {
        let mut msg = Vec::with_capacity(bytes.len() + 5);
        msg.push(ty);
        msg.extend_from_slice(&(bytes.len() as u32).to_le_bytes());
        msg.extend_from_slice(bytes);
        if self.stdin.write_all(&msg).is_err() || self.stdin.flush().is_err() {
            return self.died();
        }
        let mut reply = [0u8; 17];
        let mut got = 0;
        let fd = self.stdout.as_raw_fd();
        let deadline = std::time::Instant::now() + std::time::Duration::from_millis(TIMEOUT_MS as u64);
        while got < reply.len() {
            let left = deadline.saturating_duration_since(std::time::Instant::now()).as_millis() as i32;
            if left <= 0 {
                return Verdict::Timeout;
            }
            let mut pfd = libc::pollfd { fd, events: libc::POLLIN, revents: 0 };
            let r = unsafe { libc::poll(&mut pfd, 1, left) };
            if r == 0 {
                return Verdict::Timeout;
            }
            if r < 0 {
                continue;
            }
            match self.stdout.read(&mut reply[got..]) {
                Ok(0) => return self.died(),
                Ok(n) => got += n,
                Err(_) => return self.died(),
            }
        }
        Verdict::Done { status: reply[0], parse_peak: u64::from_le_bytes(reply[1..9].try_into().unwrap()), use_peak: u64::from_le_bytes(reply[9..17].try_into().unwrap()) }
    }

    fn died(&mut self) -> Verdict {
        let st = self.child.wait().map(|s| format!("{s}")).unwrap_or_else(|e| e.to_string());
        Verdict::Died(st)
    }

    pub fn kill(&mut self) {
        let _ = self.child.kill();
        let _ = self.child.wait();
    }
}

impl Drop for Worker {
    fn drop(&mut self) {
        self.kill();
    }
}

// ---------------------------------------------------------------------------------------
// seeds and mutants

pub struct Seed {
    pub ty: u8,
    pub name: String,
    pub bytes: Vec<u8>,
    pub fields: Vec<Field>,
}

fn qa(d: &str, n: &str) -> QualifiedAttribute {
    QualifiedAttribute::new(d, n)
}

pub struct Corpus {
    pub seeds: Vec<Seed>,
    pub ctx: Context,
    /// semantic edge values: (type, description, bytes)
    pub edges: Vec<(u8, String, Vec<u8>)>,
}

pub fn build_corpus() -> Corpus {
    let cc = Covercrypt::default();
    // small master key: one anarchy with one classic attribute
    let (mut small, _) = cc.setup().expect("setup");
    let empty_msk = ser(&small);
    let empty_mpk = ser(&small.mpk().expect("mpk"));
    let empty_struct = ser(&small.access_structure);
    small.access_structure.add_anarchy("A".into()).unwrap();
    small.access_structure.add_attribute(qa("A", "x"), EncryptionHint::Classic, None).unwrap();
    let small_mpk = cc.update_msk(&mut small).unwrap();
    let p = |s: &str| AccessPolicy::parse(s).unwrap();
    let mut small_usk = cc.generate_user_secret_key(&mut small, &p("A::x")).unwrap();
    let (_, small_enc) = cc.encaps(&small_mpk, &p("A::x")).unwrap();
    let small_usk_1 = ser(&small_usk);
    cc.rekey(&mut small, &p("A::x")).unwrap();
    cc.refresh_usk(&mut small, &mut small_usk, true).unwrap();
    let small_usk_2 = ser(&small_usk);
    // W1: hierarchy H{lo<hi(hybrid)}, anarchy A{x,y}
    let (mut msk, _) = cc.setup().unwrap();
    msk.access_structure.add_hierarchy("H".into()).unwrap();
    msk.access_structure.add_attribute(qa("H", "lo"), EncryptionHint::Classic, None).unwrap();
    msk.access_structure.add_attribute(qa("H", "hi"), EncryptionHint::Hybridized, Some("lo")).unwrap();
    msk.access_structure.add_anarchy("A".into()).unwrap();
    msk.access_structure.add_attribute(qa("A", "x"), EncryptionHint::Classic, None).unwrap();
    msk.access_structure.add_attribute(qa("A", "y"), EncryptionHint::Classic, None).unwrap();
    let mpk = cc.update_msk(&mut msk).unwrap();
    let usk_classic = cc.generate_user_secret_key(&mut msk, &p("A::x && H::lo")).unwrap();
    let usk_hybrid = cc.generate_user_secret_key(&mut msk, &p("A::x && H::hi")).unwrap();
    let (_, enc_c1) = cc.encaps(&mpk, &p("A::x")).unwrap();
    let (_, enc_c3) = cc.encaps(&mpk, &p("A::x || A::y || H::lo")).unwrap();
    let (_, enc_h1) = cc.encaps(&mpk, &p("H::hi")).unwrap();
    let (_, enc_h2) = cc.encaps(&mpk, &p("H::hi || A::x && H::hi")).unwrap();
    let (_, hdr_none) = EncryptedHeader::generate(&cc, &mpk, &p("A::x"), None, None).unwrap();
    let (_, hdr_md) = EncryptedHeader::generate(&cc, &mpk, &p("A::x"), Some(&[9u8; 20]), None).unwrap();
    let (_, hdr_ad) = EncryptedHeader::generate(&cc, &mpk, &p("A::x || A::y"), Some(b"m"), Some(b"ad")).unwrap();
    let w1_struct = ser(&msk.access_structure);
    let w1_mpk = ser(&mpk);
    cc.rekey(&mut msk, &p("A::x && H::lo")).unwrap();
    let w1_msk = ser(&msk);

    let mut seeds = vec![];
    let mut add = |ty: u8, name: &str, bytes: Vec<u8>| {
        let fields = wire::fields_of(TYPES[ty as usize], &bytes).unwrap_or_else(|e| machinery(&format!("seed {name} does not decode: {e}")));
        seeds.push(Seed { ty, name: name.to_string(), bytes, fields });
    };
    add(0, "enc classic 1 target (small)", ser(&small_enc));
    add(0, "enc classic 1 target", ser(&enc_c1));
    add(0, "enc classic 3 targets", ser(&enc_c3));
    add(0, "enc hybrid 1 target", ser(&enc_h1));
    add(0, "enc hybrid 2 targets", ser(&enc_h2));
    add(1, "header without metadata", ser(&hdr_none));
    add(1, "header with 20-byte metadata", ser(&hdr_md));
    add(1, "header with metadata and AD, 2 targets", ser(&hdr_ad));
    add(2, "usk 2 classic chains (small)", small_usk_1);
    add(2, "usk 2 classic chains, 2 revisions (small)", small_usk_2);
    add(2, "usk 4 classic chains", ser(&usk_classic));
    add(2, "usk 6 chains, 3 hybrid", ser(&usk_hybrid));
    add(3, "mpk empty structure", empty_mpk);
    add(3, "mpk small", ser(&small_mpk));
    add(3, "mpk W1 (3 hybrid rights)", w1_mpk);
    add(4, "msk empty structure", empty_msk);
    add(4, "msk small, 2 revisions, 1 user", ser(&small));
    add(4, "msk W1, partial rekey, 2 users", w1_msk);
    add(5, "empty structure", empty_struct);
    add(5, "structure W1", w1_struct);

    let ctx = Context { usks: vec![ser(&usk_classic), ser(&usk_hybrid)], encs: vec![ser(&enc_c1), ser(&enc_c3), ser(&enc_h1)] };

    // semantic edge values that parse
    let mut edges: Vec<(u8, String, Vec<u8>)> = vec![];
    let e = WEnc::decode(&ser(&enc_c3)).unwrap();
    let mut z = e.clone();
    z.traps.clear();
    edges.push((0, "encapsulation with zero traps".into(), z.encode()));
    let mut z = e.clone();
    z.items.clear();
    edges.push((0, "encapsulation with zero items".into(), z.encode()));
    let mut z = e.clone();
    z.traps.clear();
    z.items.clear();
    edges.push((0, "encapsulation with zero traps and zero items".into(), z.encode()));
    let mut z = e.clone();
    z.traps.push(z.traps[0].clone());
    z.traps.push(z.traps[0].clone());
    edges.push((0, "encapsulation with extra traps".into(), z.encode()));
    let mut z = e.clone();
    let it = z.items[0].clone();
    for _ in 0..40 {
        z.items.push(it.clone());
    }
    edges.push((0, "encapsulation with 43 items".into(), z.encode()));
    // counts above 127 (two-byte LEB128): many items, chains, rights, users
    let mut z = e.clone();
    let it = z.items[0].clone();
    z.items = vec![it; 130];
    edges.push((0, "encapsulation with 130 items".into(), z.encode()));
    let mut z = e.clone();
    let t0 = z.traps[0].clone();
    z.traps = vec![t0; 130];
    edges.push((0, "encapsulation with 130 traps".into(), z.encode()));
    let eh = WEnc::decode(&ser(&enc_h1)).unwrap();
    let mut z = eh.clone();
    z.traps.clear();
    edges.push((0, "hybrid encapsulation with zero traps".into(), z.encode()));
    let h = WHeader::decode(&ser(&hdr_md)).unwrap();
    let mut z = h.clone();
    z.enc.traps.clear();
    edges.push((1, "header whose encapsulation has zero traps".into(), z.encode()));
    for n in [0usize, 1, 11, 12, 13, 27, 28] {
        let mut z = h.clone();
        z.md.truncate(n);
        edges.push((1, format!("header with {n}-byte encrypted metadata"), z.encode()));
    }
    let u = WUsk::decode(&ser(&usk_classic)).unwrap();
    let mut z = u.clone();
    z.id.clear();
    edges.push((2, "user key with zero markers".into(), z.encode()));
    let mut z = u.clone();
    z.ps.clear();
    edges.push((2, "user key with zero tracing points".into(), z.encode()));
    let mut z = u.clone();
    z.chains.clear();
    edges.push((2, "user key with zero chains".into(), z.encode()));
    let mut z = u.clone();
    z.chains.clear();
    z.sig = None;
    z.id.clear();
    z.ps.clear();
    edges.push((2, "user key with nothing at all".into(), z.encode()));
    let mut z = u.clone();
    for c in z.chains.iter_mut() {
        c.1.clear();
    }
    edges.push((2, "user key whose chains are all empty".into(), z.encode()));
    let mut z = u.clone();
    z.chains[1].1.clear();
    edges.push((2, "user key with one empty chain".into(), z.encode()));
    let mut z = u.clone();
    let c0 = z.chains[0].clone();
    z.chains.push(c0);
    edges.push((2, "user key with a duplicated right".into(), z.encode()));
    let mut z = u.clone();
    let k = z.chains[0].1[0].clone();
    for _ in 0..30 {
        z.chains[0].1.push(k.clone());
    }
    edges.push((2, "user key with a 31-secret chain".into(), z.encode()));
    let mut z = u.clone();
    z.id = vec![vec![0u8; 32]; z.id.len()];
    edges.push((2, "user key with zero scalars as markers".into(), z.encode()));
    let mut z = u.clone();
    z.id.push(z.id[0].clone());
    z.id.push(z.id[0].clone());
    edges.push((2, "user key with extra markers".into(), z.encode()));
    let mut z = u.clone();
    let c0 = z.chains[0].clone();
    z.chains = (0..130u64).map(|i| (wire::ids_right(&[i + 200]), c0.1.clone())).collect();
    edges.push((2, "user key with 130 chains".into(), z.encode()));
    let mut z = u.clone();
    z.id = vec![z.id[0].clone(); 130];
    z.ps = vec![z.ps[0].clone(); 130];
    edges.push((2, "user key with 130 markers and tracing points".into(), z.encode()));
    let m = WMpk::decode(&ser(&mpk)).unwrap();
    let mut z = m.clone();
    let k0 = z.keys.values().next().unwrap().clone();
    for i in 0..130u64 {
        z.keys.insert(wire::ids_right(&[i + 300]), k0.clone());
    }
    edges.push((3, "public key with 130 extra rights".into(), z.encode()));
    let mut z = m.clone();
    z.tpk = vec![z.tpk[0].clone(); 130];
    edges.push((3, "public key with 130 tracing points".into(), z.encode()));
    let mut z = m.clone();
    z.tpk.clear();
    edges.push((3, "public key with zero tracing points".into(), z.encode()));
    let mut z = m.clone();
    z.keys.clear();
    edges.push((3, "public key with zero rights".into(), z.encode()));
    let mut z = m.clone();
    z.structure = Default::default();
    edges.push((3, "public key with an empty structure".into(), z.encode()));
    let ms = WMsk::decode(&ser(&msk)).unwrap();
    let mut z = ms.clone();
    let id0 = z.users[0].clone();
    z.users = (0..130u8).map(|i| { let mut id = id0.clone(); id[0][0] = i; id[0][31] = 0; id }).collect();
    edges.push((4, "master key with 130 user ids".into(), z.encode()));
    let mut z = ms.clone();
    let t0 = z.tracers[0].clone();
    z.tracers = vec![t0; 130];
    edges.push((4, "master key with 130 tracers".into(), z.encode()));
    let mut z = ms.clone();
    z.tracers.clear();
    edges.push((4, "master key with zero tracers".into(), z.encode()));
    let mut z = ms.clone();
    z.rights.clear();
    edges.push((4, "master key with zero rights".into(), z.encode()));
    let mut z = ms.clone();
    for c in z.rights.values_mut() {
        c.clear();
    }
    edges.push((4, "master key whose chains are all empty".into(), z.encode()));
    let mut z = ms.clone();
    z.users.clear();
    z.users.push(vec![]);
    edges.push((4, "master key with one empty user id".into(), z.encode()));
    let mut z = ms.clone();
    z.structure = Default::default();
    edges.push((4, "master key with an empty structure".into(), z.encode()));
    let mut z = ms.clone();
    for d in z.structure.dims.values_mut() {
        d.attrs.clear();
    }
    edges.push((4, "master key whose dimensions are empty".into(), z.encode()));
    // structure with duplicate attribute names / ids (hand-written bytes)
    let mut st = vec![0u8, 1];
    wire::put_vec(b"D", &mut st);
    st.push(1);
    st.push(3);
    for id in [5u8, 5, 5] {
        wire::put_vec(b"a", &mut st);
        st.extend_from_slice(&[id, 0, 1]);
    }
    edges.push((5, "hierarchy with three attributes of one name and one id".into(), st));
    let mut st = vec![0u8, 2];
    for _ in 0..2 {
        wire::put_vec(b"D", &mut st);
        st.extend_from_slice(&[0, 0]);
    }
    edges.push((5, "two dimensions of one name".into(), st));
    Corpus { seeds, ctx, edges }
}

#[derive(Clone, Debug)]
pub enum Mutant {
    Prefix(usize),
    Byte { pos: usize, val: u8 },
    Field { idx: usize, val: u64 },
    FieldPadded { idx: usize, n: usize },
    Edge(usize),
    Random(u64),
    Splice(u64),
}

const BOUNDARY: [u64; 12] = [0, 1, 2, 127, 128, 255, 256, 1 << 16, 1 << 31, (1 << 32) - 1, 1 << 32, (1 << 63) - 1];

fn xorshift(s: &mut u64) -> u64 {
    *s ^= *s << 13;
    *s ^= *s >> 7;
    *s ^= *s << 17;
    *s
}

pub fn materialize(c: &Corpus, seed: usize, m: &Mutant) -> (u8, Vec<u8>) {
    let s = &c.seeds[seed.min(c.seeds.len() - 1)];
    match m {
        Mutant::Prefix(n) => (s.ty, s.bytes[..*n].to_vec()),
        Mutant::Byte { pos, val } => {
            let mut b = s.bytes.clone();
            b[*pos] = *val;
            (s.ty, b)
        }
        Mutant::Field { idx, val } => {
            let f = &s.fields[*idx];
            let mut b = s.bytes[..f.off].to_vec();
            wire::leb_enc(*val, &mut b);
            b.extend_from_slice(&s.bytes[f.off + f.len..]);
            (s.ty, b)
        }
        Mutant::FieldPadded { idx, n } => {
            let f = &s.fields[*idx];
            let mut b = s.bytes[..f.off].to_vec();
            wire::leb_enc_padded(f.val, *n, &mut b);
            b.extend_from_slice(&s.bytes[f.off + f.len..]);
            (s.ty, b)
        }
        Mutant::Edge(i) => (c.edges[*i].0, c.edges[*i].2.clone()),
        Mutant::Random(r) => {
            let mut st = *r | 1;
            let len = (xorshift(&mut st) % 300) as usize;
            let ty = (xorshift(&mut st) % 6) as u8;
            (ty, (0..len).map(|_| xorshift(&mut st) as u8).collect())
        }
        Mutant::Splice(r) => {
            let mut st = *r | 1;
            let a = &c.seeds[(xorshift(&mut st) as usize) % c.seeds.len()];
            let b = &c.seeds[(xorshift(&mut st) as usize) % c.seeds.len()];
            let cut_a = (xorshift(&mut st) as usize) % (a.bytes.len() + 1);
            let cut_b = (xorshift(&mut st) as usize) % (b.bytes.len() + 1);
            let mut out = a.bytes[..cut_a].to_vec();
            out.extend_from_slice(&b.bytes[cut_b..]);
            (a.ty, out)
        }
    }
}

fn byte_values(orig: u8, thorough_all: bool) -> Vec<u8> {
    if thorough_all {
        (0..=255u8).filter(|v| *v != orig).collect()
    } else {
        let mut v: Vec<u8> = (0..8).map(|b| orig ^ (1 << b)).collect();
        for x in [0x00u8, 0x7f, 0x80, 0xff] {
            if x != orig && !v.contains(&x) {
                v.push(x);
            }
        }
        v
    }
}

pub fn mutants_of(c: &Corpus, seed: usize, thorough: bool) -> Vec<Mutant> {
    let s = &c.seeds[seed];
    let mut out = vec![];
    for n in 0..s.bytes.len() {
        out.push(Mutant::Prefix(n));
    }
    let all = thorough && s.bytes.len() <= 2048;
    // reduced run on the second configuration in the quick tier: one bit per byte
    let reduced = !thorough && crate::common::is_sub();
    for pos in 0..s.bytes.len() {
        if reduced {
            out.push(Mutant::Byte { pos, val: s.bytes[pos] ^ (1 << (pos % 8)) });
            continue;
        }
        for val in byte_values(s.bytes[pos], all) {
            out.push(Mutant::Byte { pos, val });
        }
    }
    for (idx, f) in s.fields.iter().enumerate() {
        if !f.leb {
            continue;
        }
        let mut vals: Vec<u64> = BOUNDARY.to_vec();
        vals.extend([f.val.wrapping_sub(1), f.val + 1, 1 << 63, u64::MAX, u64::MAX - 1, 1 << 20, 1 << 40]);
        vals.sort_unstable();
        vals.dedup();
        for v in vals {
            if v != f.val {
                out.push(Mutant::Field { idx, val: v });
            }
        }
        for n in [f.len + 1, 9, 10, 11] {
            if n > f.len {
                out.push(Mutant::FieldPadded { idx, n });
            }
        }
    }
    out
}

#[derive(Clone, Debug)]
pub struct Bad {
    pub seed: usize,
    pub mutant: Mutant,
    pub ty: u8,
    pub bytes: Vec<u8>,
    pub class: &'static str,
    pub detail: String,
}

pub fn judge(v: &Verdict, input_len: usize) -> Option<(&'static str, String)> {
    match v {
        Verdict::Timeout => Some(("C14.b", format!("no answer within {TIMEOUT_MS} ms"))),
        Verdict::Died(st) => Some(("C14.a", format!("the process died ({st}) - abort, signal or allocation failure"))),
        Verdict::Done { status: 2, .. } => Some(("C14.a", "panic while deserialising".into())),
        Verdict::Done { status: 3, .. } => Some(("C14.a", "panic while using the parsed value".into())),
        Verdict::Done { parse_peak, use_peak, .. } => {
            let bound = mem_bound(input_len);
            if *parse_peak > bound {
                Some(("C14.c", format!("deserialisation held {parse_peak} bytes at once for a {input_len}-byte input (bound {bound})")))
            } else if *use_peak > bound {
                Some(("C14.d", format!("using the parsed value held {use_peak} bytes at once for a {input_len}-byte input (bound {bound})")))
            } else {
                None
            }
        }
    }
}

pub fn check(prop: &str, tier: &str) -> i32 {
    let thorough = tier == "thorough";
    let mut run = Run::new(prop, tier, "fault_enumeration");
    let corpus = build_corpus();
    // the seeds themselves must pass (positive control)
    {
        let mut w = Worker::spawn(&corpus.ctx);
        for s in &corpus.seeds {
            match w.exec(s.ty, &s.bytes) {
                Verdict::Done { status: 0, parse_peak, use_peak } if parse_peak <= mem_bound(s.bytes.len()) && use_peak <= mem_bound(s.bytes.len()) => {}
                // a well-formed object produced by the API itself is an input like any other: a
                // panic / hang / memory blow-up while reading or using it (possibly only after the
                // other seeds were used in the same worker) is the property's verdict
                v => {
                    let alone = Worker::spawn(&corpus.ctx).exec(s.ty, &s.bytes);
                    run.report(None, "C14.a", &format!("the valid seed {:?} (an object produced by the API, {} bytes) is not handled cleanly after the preceding valid seeds were used in the same process: {v:?} (alone in a fresh process: {alone:?})", s.name, s.bytes.len()), json!({"engine": "fparse", "type": s.ty, "input": hex(&s.bytes), "mutant": "valid seed"}));
                    return run.finish();
                }
            }
        }
    }
    let mut jobs: Vec<(usize, Mutant)> = vec![];
    for i in 0..corpus.seeds.len() {
        for m in mutants_of(&corpus, i, thorough) {
            jobs.push((i, m));
        }
    }
    let exhaustive_jobs = jobs.len();
    for i in 0..corpus.edges.len() {
        jobs.push((0, Mutant::Edge(i)));
    }
    let n_random = if thorough { 20000 } else { 2000 };
    let base = run.seed.wrapping_mul(0x9E37_79B9_7F4A_7C15) ^ 0xC14;
    for i in 0..n_random {
        jobs.push((0, Mutant::Random(base.wrapping_add(i * 7919 + 1))));
        jobs.push((0, Mutant::Splice(base.wrapping_add(i * 104_729 + 3))));
    }
    let next = AtomicUsize::new(0);
    let bads: Mutex<Vec<Bad>> = Mutex::new(vec![]);
    let counts: Mutex<[u64; 5]> = Mutex::new([0; 5]); // parsed+used, rejected, bad, max parse peak ratio (x1000), restarts
    let workers = nworkers();
    std::thread::scope(|sc| {
        for _ in 0..workers {
            sc.spawn(|| {
                let mut w = Worker::spawn(&corpus.ctx);
                let mut local = [0u64; 5];
                loop {
                    let i = next.fetch_add(1, Ordering::Relaxed);
                    if i >= jobs.len() {
                        break;
                    }
                    let (seed, m) = &jobs[i];
                    let (ty, bytes) = materialize(&corpus, *seed, m);
                    let v = w.exec(ty, &bytes);
                    match &v {
                        Verdict::Done { status: 0, .. } => local[0] += 1,
                        Verdict::Done { status: 1, .. } => local[1] += 1,
                        _ => {}
                    }
                    if let Verdict::Done { parse_peak, .. } = &v {
                        let ratio = parse_peak * 1000 / mem_bound(bytes.len());
                        local[3] = local[3].max(ratio);
                    }
                    if !matches!(v, Verdict::Done { .. }) {
                        w.kill();
                        w = Worker::spawn(&corpus.ctx);
                        local[4] += 1;
                    }
                    if let Some((class, _)) = judge(&v, bytes.len()) {
                        // confirm alone in a fresh worker
                        let mut fresh = Worker::spawn(&corpus.ctx);
                        let v2 = fresh.exec(ty, &bytes);
                        if let Some((class2, detail2)) = judge(&v2, bytes.len()) {
                            local[2] += 1;
                            let mut b = bads.lock().unwrap();
                            if b.len() < 5000 {
                                b.push(Bad { seed: *seed, mutant: m.clone(), ty, bytes, class: class2, detail: detail2 });
                            }
                        } else {
                            eprintln!("note: a {class} verdict did not reproduce in a fresh worker (ignored)");
                        }
                    }
                }
                let mut c = counts.lock().unwrap();
                for k in [0, 1, 2, 4] {
                    c[k] += local[k];
                }
                c[3] = c[3].max(local[3]);
            });
        }
    });
    let counts = counts.into_inner().unwrap();
    let mut bads = bads.into_inner().unwrap();
    // group by root-cause signature: (type, class, kind of the mutated field)
    bads.sort_by_key(|b| (b.ty, b.class, b.bytes.len()));
    let mut seen = std::collections::BTreeSet::new();
    for b in &bads {
        let kind = match &b.mutant {
            Mutant::Field { idx, .. } | Mutant::FieldPadded { idx, .. } => corpus.seeds[b.seed].fields[*idx].kind.to_string(),
            Mutant::Byte { pos, .. } => corpus.seeds[b.seed].fields.iter().find(|f| *pos >= f.off && *pos < f.off + f.len).map(|f| f.kind.to_string()).unwrap_or_default(),
            Mutant::Edge(i) => corpus.edges[*i].1.clone(),
            Mutant::Prefix(_) => "truncation".into(),
            Mutant::Random(_) => "random bytes".into(),
            Mutant::Splice(_) => "splice".into(),
        };
        if seen.insert((b.ty, b.class, kind.clone())) && seen.len() <= 12 {
            let msg = format!("{} as {}: {} [{}; mutant {:?} of seed {:?}]", if b.bytes.len() > 24 { format!("{}... ({} bytes)", hex(&b.bytes[..24]), b.bytes.len()) } else { hex(&b.bytes) }, TYPES[b.ty as usize], b.detail, kind, b.mutant, corpus.seeds[b.seed].name);
            run.report(None, b.class, &msg, json!({"engine": "fparse", "config": wire::NAME, "type": TYPES[b.ty as usize], "input": hex(&b.bytes)}));
        }
    }
    run.set("evaluations", json!(jobs.len()));
    run.set("distinct_nontrivial", json!(counts[0]));
    run.set("rule", json!(format!("for each of {} valid seeds (every serialisable type, classic and hybridized, 1-3 targets/rights, 1-2 revisions, empty structure): every proper prefix; every byte position x {{8 bit flips, 0x00, 0x7f, 0x80, 0xff}} (thorough: all 255 other values for seeds <= 2 KiB); every LEB128 count/length/flag field (located by the independent decoder) x {{0,1,2,n-1,n+1,127,128,255,256,2^16,2^20,2^31,2^32-1,2^32,2^40,2^63-1,2^63,2^64-2,2^64-1}} and over-long encodings of 9/10/11 bytes; {} hand-built semantic edge values; plus {} random strings and {} random splices (SAMPLING, seeded by VERIF_SEED, supplementary). Each mutant is deserialised and, if accepted, used (decaps with valid keys / header decryption / accessors / re-serialisation) in a worker process with RLIMIT_AS = 1 GiB, a counting allocator and a 2 s watchdog. distinct_nontrivial = mutants accepted by the parser and then used", corpus.seeds.len(), corpus.edges.len(), n_random, n_random)));
    run.set("exhaustive_mutants", json!(exhaustive_jobs));
    run.set("edge_values", json!(corpus.edges.len()));
    run.set("sampled_mutants", json!(2 * n_random));
    run.set("accepted_and_used", json!(counts[0]));
    run.set("rejected_by_parser", json!(counts[1]));
    run.set("bad_verdicts", json!(counts[2]));
    run.set("max_parse_peak_permille_of_bound", json!(counts[3]));
    run.set("worker_restarts", json!(counts[4]));
    run.set("exhaustive", json!(true));
    run.set("seeds", json!(corpus.seeds.iter().map(|s| json!({"type": TYPES[s.ty as usize], "name": s.name, "bytes": s.bytes.len(), "leb_fields": s.fields.iter().filter(|f| f.leb).count()})).collect::<Vec<_>>()));
    for (i, (s, m)) in jobs.iter().enumerate().step_by((jobs.len() / 8).max(1)) {
        let (ty, b) = materialize(&corpus, *s, m);
        run.sample(json!({"index": i, "type": TYPES[ty as usize], "mutant": format!("{m:?}"), "len": b.len()}));
    }
    run.assume("memory bound: peak live bytes <= 256 KiB + 1024 x input length (valid seeds need < 30 x their length)");
    run.assume("inputs <= 12 KiB; the dependencies' own parsers (curve points, ML-KEM keys) are exercised but trusted for cryptographic validity");
    if counts[0] == 0 || counts[1] == 0 {
        machinery("fparse driver is vacuous");
    }
    run.finish()
}

/// Replays one input in a fresh worker.
pub fn replay(ty_name: &str, input_hex: &str) -> Option<(String, String)> {
    let corpus = build_corpus();
    let ty = TYPES.iter().position(|t| *t == ty_name).unwrap_or_else(|| machinery("bad type")) as u8;
    let bytes = unhex(input_hex).unwrap_or_else(|e| machinery(&e));
    let mut w = Worker::spawn(&corpus.ctx);
    let v = w.exec(ty, &bytes);
    println!("verdict: {v:?}");
    judge(&v, bytes.len()).map(|(c, d)| (c.to_string(), d))
}
