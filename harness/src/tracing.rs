//! C17: registration of user ids and the tracing relation, recomputed by the harness from the
//! decoded bytes with its own scalar arithmetic (crypto_core's Ristretto types in
//! configuration A, the `p256` crate in configuration B).

use crate::wire::{WMsk, WUsk};
use crate::world::World;

#[cfg(feature = "cfg-a")]
mod arith {
    use cosmian_crypto_core::{R25519CurvePoint, R25519PrivateKey};

    pub type Scalar = R25519PrivateKey;

    pub fn scalar(b: &[u8]) -> Option<Scalar> {
        let a: [u8; 32] = b.try_into().ok()?;
        R25519PrivateKey::try_from_bytes(a).ok()
    }
    pub fn mul(a: &Scalar, b: &Scalar) -> Scalar {
        a * b
    }
    pub fn add(a: &Scalar, b: &Scalar) -> Scalar {
        a + b
    }
    pub fn eq(a: &Scalar, b: &Scalar) -> bool {
        a.as_bytes() == b.as_bytes()
    }
    pub fn zero() -> Scalar {
        let one = scalar(&{
            let mut o = [0u8; 32];
            o[0] = 1;
            o
        })
        .expect("one");
        &one - &one
    }
    /// t·G, serialised
    pub fn base_mul(t: &Scalar) -> Vec<u8> {
        R25519CurvePoint::from(t).to_bytes().to_vec()
    }
}

#[cfg(all(feature = "cfg-b", not(feature = "cfg-a")))]
mod arith {
    use elliptic_curve::{group::GroupEncoding, PrimeField};
    use p256::{ProjectivePoint, Scalar as S};

    pub type Scalar = S;

    pub fn scalar(b: &[u8]) -> Option<Scalar> {
        let a: [u8; 32] = b.try_into().ok()?;
        S::from_repr(a.into()).into_option()
    }
    pub fn mul(a: &Scalar, b: &Scalar) -> Scalar {
        a * b
    }
    pub fn add(a: &Scalar, b: &Scalar) -> Scalar {
        a + b
    }
    pub fn eq(a: &Scalar, b: &Scalar) -> bool {
        a == b
    }
    pub fn zero() -> Scalar {
        S::ZERO
    }
    pub fn base_mul(t: &Scalar) -> Vec<u8> {
        (ProjectivePoint::GENERATOR * *t).to_bytes().to_vec()
    }
}

/// Σ aᵢ·tᵢ = s for one id; `None` when a scalar does not decode.
pub fn relation_holds(m: &WMsk, id: &[Vec<u8>]) -> Option<bool> {
    if id.len() != m.tracers.len() {
        return Some(false);
    }
    let s = arith::scalar(&m.s)?;
    let mut acc = arith::zero();
    for (a, (t, _)) in id.iter().zip(&m.tracers) {
        let a = arith::scalar(a)?;
        let t = arith::scalar(t)?;
        acc = arith::add(&acc, &arith::mul(&a, &t));
    }
    Some(arith::eq(&acc, &s))
}

pub fn check_msk(w: &mut World, m: &WMsk, what: &str) {
    // Pᵢ = tᵢ·G
    for (i, (t, p)) in m.tracers.iter().enumerate() {
        match arith::scalar(t) {
            Some(ts) => {
                if &arith::base_mul(&ts) != p {
                    w.fail("C17.d", format!("{what}: master tracer point {i} is not t·G"));
                }
            }
            None => w.fail("C17.d", format!("{what}: master tracer scalar {i} does not decode")),
        }
    }
    // ids: pairwise distinct (the decoded list is sorted) and each satisfies the relation
    for pair in m.users.windows(2) {
        if pair[0] == pair[1] {
            w.fail("C17.b", format!("{what}: the master key lists one user id twice"));
        }
    }
    for (i, id) in m.users.iter().enumerate() {
        if relation_holds(m, id) != Some(true) {
            w.fail("C17.c", format!("{what}: registered id #{i} does not satisfy sum(a_i * t_i) = s"));
        }
    }
}

pub fn check_usk(w: &mut World, k: usize, u: &WUsk, m: &WMsk, what: &str) {
    let known = w.usks[k].known;
    if known {
        if !m.users.contains(&u.id) {
            w.fail("C17.a", format!("{what}: id of user key {k} is not registered in the master key"));
        }
        if relation_holds(m, &u.id) != Some(true) {
            w.fail("C17.c", format!("{what}: id of user key {k} does not satisfy sum(a_i * t_i) = s"));
        }
        let want: Vec<&Vec<u8>> = m.tracers.iter().map(|(_, p)| p).collect();
        let got: Vec<&Vec<u8>> = u.ps.iter().collect();
        if want != got {
            w.fail("C17.d", format!("{what}: tracing points of user key {k} differ from the master tracers"));
        }
    }
    // distinct from the ids of the other live keys
    for (j, other) in w.usks.iter().enumerate() {
        if j != k {
            if let Ok(o) = WUsk::decode(&crate::world::ser(&other.usk)) {
                if o.id == u.id {
                    w.fail("C17.b", format!("{what}: user keys {k} and {j} share one id"));
                    break;
                }
            }
        }
    }
}

/// Many users on one master key: registration, distinctness and the tracing relation for every
/// issued id, through a master-key round-trip and a refresh of every key.
pub fn bulk(run: &mut crate::common::Run, n: usize) {
    use cosmian_cover_crypt::{AccessPolicy, MasterSecretKey, UserSecretKey};
    use cosmian_crypto_core::bytes_ser_de::Serializable;
    use serde_json::json;
    // a master key saved before it issued any key must refuse every key issued afterwards
    {
        let mut fresh = crate::ftamper::w1();
        let saved = crate::world::ser(&fresh.msk);
        if let (Ok(late), Ok(mut restored)) = (fresh.cc.generate_user_secret_key(&mut fresh.msk, &AccessPolicy::parse("A::x").unwrap()), MasterSecretKey::deserialize(&saved)) {
            for keep in [true, false] {
                let mut c = late.clone();
                if fresh.cc.refresh_usk(&mut restored, &mut c, keep).is_ok() {
                    run.report(None, "C17.f", &format!("a master key that was saved before it issued any key accepts (refresh keep={keep}) a key issued afterwards: its identifier is not registered there"), json!({"engine": "tracing-bulk"}));
                    return;
                }
                if let Some(m) = crate::world::tracing_part_changed(&crate::world::ser(&late), &crate::world::ser(&c)) {
                    run.report(None, "C17.g", &format!("a key refused (refresh keep={keep}) by a master key saved before it was issued: {m}"), json!({"engine": "tracing-bulk"}));
                    return;
                }
            }
        }
    }
    // a bare master key (no dimension at all, hence very few bytes after the user list): every
    // number of users 1..=200 through a round-trip, every key still accepted afterwards
    {
        let cc = cosmian_cover_crypt::api::Covercrypt::default();
        if let Ok((mut msk, _)) = cc.setup() {
            let star = AccessPolicy::parse("*").unwrap();
            let mut keys: Vec<UserSecretKey> = vec![];
            for i in 1..=200usize {
                match cc.generate_user_secret_key(&mut msk, &star) {
                    Ok(k) => keys.push(k),
                    Err(e) => {
                        run.report(None, "C17.a", &format!("bare master key: key generation #{i} failed: {e}"), json!({"engine": "tracing-bulk"}));
                        return;
                    }
                }
                let bytes = crate::world::ser(&msk);
                match std::panic::catch_unwind(|| MasterSecretKey::deserialize(&bytes)) {
                    Ok(Ok(mut m2)) => {
                        let ids = WMsk::decode(&crate::world::ser(&m2)).map(|w| w.users.len()).unwrap_or(0);
                        if ids != i {
                            run.report(None, "C17.e", &format!("bare master key with {i} users: {ids} identifiers after a round-trip"), json!({"engine": "tracing-bulk"}));
                            return;
                        }
                        if i % 16 == 0 || i < 40 {
                            let mut k = keys[i - 1].clone();
                            if let Err(e) = cc.refresh_usk(&mut m2, &mut k, true) {
                                run.report(None, "C17.e", &format!("bare master key with {i} users: after a round-trip the newest key is refused: {e}"), json!({"engine": "tracing-bulk"}));
                                return;
                            }
                        }
                    }
                    _ => {
                        run.report(None, "C17.e", &format!("a master key without dimensions that registered {i} users is rejected by deserialize: the registrations do not survive serialization"), json!({"engine": "tracing-bulk"}));
                        return;
                    }
                }
            }
        }
    }
    let mut b = crate::ftamper::w1();
    let pols = ["A::x", "A::y && H::lo", "H::hi", "*"];
    let mut keys: Vec<UserSecretKey> = vec![];
    for i in 0..n {
        let ap = AccessPolicy::parse(pols[i % pols.len()]).unwrap();
        match b.cc.generate_user_secret_key(&mut b.msk, &ap) {
            Ok(k) => keys.push(k),
            Err(e) => {
                run.report(None, "C17.a", &format!("key generation #{i} failed: {e}"), json!({"engine": "tracing-bulk"}));
                return;
            }
        }
    }
    let check = |run: &mut crate::common::Run, msk: &MasterSecretKey, keys: &[UserSecretKey], what: &str| -> bool {
        let Ok(m) = WMsk::decode(&crate::world::ser(msk)) else {
            run.report(None, "C13.w", &format!("{what}: master key with {n} users does not decode"), json!({"engine": "tracing-bulk"}));
            return false;
        };
        if m.users.len() != keys.len() {
            run.report(None, "C17.a", &format!("{what}: {} keys were issued, the master key lists {} ids", keys.len(), m.users.len()), json!({"engine": "tracing-bulk"}));
            return false;
        }
        if m.users.windows(2).any(|p| p[0] == p[1]) {
            run.report(None, "C17.b", &format!("{what}: two of {n} issued ids are equal"), json!({"engine": "tracing-bulk"}));
            return false;
        }
        let want: Vec<&Vec<u8>> = m.tracers.iter().map(|(_, p)| p).collect();
        for (i, k) in keys.iter().enumerate() {
            let Ok(u) = WUsk::decode(&crate::world::ser(k)) else { continue };
            if !m.users.contains(&u.id) {
                run.report(None, "C17.a", &format!("{what}: the id of issued key #{i} of {n} is not registered"), json!({"engine": "tracing-bulk"}));
                return false;
            }
            if relation_holds(&m, &u.id) != Some(true) {
                run.report(None, "C17.c", &format!("{what}: the id of issued key #{i} of {n} does not satisfy the tracing relation"), json!({"engine": "tracing-bulk"}));
                return false;
            }
            if u.ps.iter().collect::<Vec<_>>() != want {
                run.report(None, "C17.d", &format!("{what}: tracing points of issued key #{i} differ from the master tracers"), json!({"engine": "tracing-bulk"}));
                return false;
            }
        }
        true
    };
    if !check(run, &b.msk, &keys, "after issuing") {
        return;
    }
    let Ok(mut msk2) = MasterSecretKey::deserialize(&crate::world::ser(&b.msk)) else {
        run.report(None, "C13.d", "master key with many users rejected by deserialize", json!({"engine": "tracing-bulk"}));
        return;
    };
    if !check(run, &msk2, &keys, "after a master-key round-trip") {
        return;
    }
    let _ = b.cc.rekey(&mut msk2, &AccessPolicy::parse("A::x").unwrap());
    for (i, k) in keys.iter_mut().enumerate() {
        if let Err(e) = b.cc.refresh_usk(&mut msk2, k, i % 2 == 0) {
            run.report(None, "C17.e", &format!("issued key #{i} of {n} is refused by refresh after a master-key round-trip: {e}"), json!({"engine": "tracing-bulk"}));
            return;
        }
    }
    check(run, &msk2, &keys, "after refreshing every key");
    run.set("bulk_users", json!(n));
}
