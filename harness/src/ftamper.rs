//! In-process tamper enumerators: C07 (non-malleability), C08 (forged user keys),
//! C12 (PKE / header round-trip and authentication).

use std::collections::BTreeSet;
use std::panic::{catch_unwind, AssertUnwindSafe};

use serde_json::json;

use cosmian_cover_crypt::{
    api::Covercrypt,
    traits::{KemAc, PkeAc},
    AccessPolicy, EncryptedHeader, EncryptionHint, MasterPublicKey, MasterSecretKey, QualifiedAttribute, UserSecretKey, XEnc,
};
use cosmian_crypto_core::{bytes_ser_de::Serializable, Aes256Gcm};

use crate::common::{machinery, par_map, Run};
use crate::wire::{self, hex, WEnc, WRsk, WUsk};
use crate::world::{msk_equal_canon, ser};

fn p(s: &str) -> AccessPolicy {
    AccessPolicy::parse(s).unwrap_or_else(|e| machinery(&format!("policy {s}: {e}")))
}

pub struct Base {
    pub cc: Covercrypt,
    pub msk: MasterSecretKey,
    pub mpk: MasterPublicKey,
}

/// W1: hierarchy H{lo < hi(hybrid)}, anarchy A{x, y}.
pub fn w1() -> Base {
    let cc = Covercrypt::default();
    let (mut msk, _) = cc.setup().expect("setup");
    let qa = QualifiedAttribute::new;
    msk.access_structure.add_hierarchy("H".into()).unwrap();
    msk.access_structure.add_attribute(qa("H", "lo"), EncryptionHint::Classic, None).unwrap();
    msk.access_structure.add_attribute(qa("H", "hi"), EncryptionHint::Hybridized, Some("lo")).unwrap();
    msk.access_structure.add_anarchy("A".into()).unwrap();
    msk.access_structure.add_attribute(qa("A", "x"), EncryptionHint::Classic, None).unwrap();
    msk.access_structure.add_attribute(qa("A", "y"), EncryptionHint::Classic, None).unwrap();
    let mpk = cc.update_msk(&mut msk).unwrap();
    Base { cc, msk, mpk }
}

// =======================================================================================
// C07

struct MalleSeed {
    name: String,
    enc: XEnc,
    bytes: Vec<u8>,
    secret: Vec<u8>,
}

#[derive(Clone)]
struct EncMutant {
    seed: usize,
    what: String,
    bytes: Vec<u8>,
}

fn perms(n: usize) -> Vec<Vec<usize>> {
    if n <= 1 {
        return vec![(0..n).collect()];
    }
    let mut out = vec![];
    for pm in perms(n - 1) {
        for i in 0..=pm.len() {
            let mut q = pm.clone();
            q.insert(i, n - 1);
            out.push(q);
        }
    }
    out
}

fn structural_mutants(seed: usize, w: &WEnc, other: Option<&WEnc>) -> Vec<EncMutant> {
    let mut out = vec![];
    let mut push = |what: String, e: WEnc| out.push(EncMutant { seed, what, bytes: e.encode() });
    let n = w.items.len();
    for pm in perms(n.min(4)) {
        if pm.iter().enumerate().all(|(i, j)| i == *j) {
            continue;
        }
        let mut e = w.clone();
        e.items = pm.iter().map(|j| w.items[*j].clone()).collect();
        push(format!("items permuted {pm:?}"), e);
        if w.hybrid {
            let mut e = w.clone();
            for (i, j) in pm.iter().enumerate() {
                e.items[i].0 = w.items[*j].0.clone();
            }
            push(format!("ML-KEM ciphertexts permuted {pm:?}, masked seeds in place"), e);
            let mut e = w.clone();
            for (i, j) in pm.iter().enumerate() {
                e.items[i].1 = w.items[*j].1.clone();
            }
            push(format!("masked seeds permuted {pm:?}, ML-KEM ciphertexts in place"), e);
        }
    }
    for pm in perms(w.traps.len().min(4)) {
        if pm.iter().enumerate().all(|(i, j)| i == *j) {
            continue;
        }
        let mut e = w.clone();
        e.traps = pm.iter().map(|j| w.traps[*j].clone()).collect();
        push(format!("traps permuted {pm:?}"), e);
    }
    for i in 0..n {
        let mut e = w.clone();
        e.items.remove(i);
        push(format!("item {i} dropped"), e);
        let mut e = w.clone();
        e.items.insert(i, w.items[i].clone());
        push(format!("item {i} duplicated"), e);
        let mut e = w.clone();
        e.items.push(w.items[i].clone());
        push(format!("item {i} appended again"), e);
    }
    for i in 0..w.traps.len() {
        let mut e = w.clone();
        e.traps.remove(i);
        push(format!("trap {i} dropped"), e);
        let mut e = w.clone();
        e.traps.insert(i, w.traps[i].clone());
        push(format!("trap {i} duplicated"), e);
    }
    let mut e = w.clone();
    e.traps.clear();
    push("all traps dropped".into(), e);
    let mut e = w.clone();
    e.items.clear();
    push("all items dropped".into(), e);
    // flavour flag
    if w.hybrid {
        let mut e = w.clone();
        e.hybrid = false;
        for it in e.items.iter_mut() {
            it.0 = None;
        }
        push("flavour hybrid -> classic (ML-KEM ciphertexts dropped)".into(), e);
    } else {
        let mut e = w.clone();
        e.hybrid = true;
        for it in e.items.iter_mut() {
            it.0 = Some(vec![0u8; wire::CT]);
        }
        push("flavour classic -> hybrid (zero ML-KEM ciphertexts)".into(), e);
    }
    if let Some(o) = other {
        let mut e = w.clone();
        e.tag = o.tag.clone();
        push("tag of another encapsulation".into(), e);
        let mut e = w.clone();
        e.traps = o.traps.clone();
        push("traps of another encapsulation".into(), e);
        let mut e = w.clone();
        e.items = o.items.clone();
        push("items of another encapsulation".into(), e);
        for i in 0..n.min(o.items.len()) {
            let mut e = w.clone();
            e.items[i] = o.items[i].clone();
            push(format!("item {i} of another encapsulation"), e);
            if w.hybrid {
                let mut e = w.clone();
                e.items[i].0 = o.items[i].0.clone();
                push(format!("ML-KEM ciphertext {i} of another encapsulation"), e);
            }
            let mut e = w.clone();
            e.items[i].1 = o.items[i].1.clone();
            push(format!("masked seed {i} of another encapsulation"), e);
        }
        let mut e = o.clone();
        e.tag = w.tag.clone();
        push("this tag on another encapsulation".into(), e);
    }
    out
}

pub fn check_c07(prop: &str, tier: &str) -> i32 {
    let thorough = tier == "thorough";
    let mut run = Run::new(prop, tier, "fault_enumeration");
    let mut b = w1();
    let cc = &b.cc;
    let pols = ["A::x", "A::x || A::y", "A::x || A::y || H::lo", "H::hi", "H::hi || A::x && H::hi"];
    let mut seeds = vec![];
    let mut twins = vec![];
    for pol in pols {
        let (s, e) = cc.encaps(&b.mpk, &p(pol)).unwrap();
        let (_, e2) = cc.encaps(&b.mpk, &p(pol)).unwrap();
        seeds.push(MalleSeed { name: format!("encapsulation of {pol:?}"), bytes: ser(&e), enc: e, secret: s.to_vec() });
        twins.push(WEnc::decode(&ser(&e2)).unwrap());
    }
    // keys: authorised through each target, unauthorised, fresh twin, authorised through an older revision
    let mut keys: Vec<(String, UserSecretKey)> = vec![];
    for kp in ["A::x", "A::y", "H::hi", "A::x && H::hi", "A::y && H::lo", "A::x"] {
        keys.push((kp.to_string(), cc.generate_user_secret_key(&mut b.msk, &p(kp)).unwrap()));
    }
    let mut old = keys[0].1.clone();
    cc.rekey(&mut b.msk, &p("A::x")).unwrap();
    cc.refresh_usk(&mut b.msk, &mut old, true).unwrap();
    keys.push(("A::x (refreshed after a rekey, opens through the older revision)".into(), old));
    // positive control
    let mut controls = 0;
    for s in &seeds {
        let opened = keys.iter().filter(|(_, k)| matches!(cc.decaps(k, &s.enc), Ok(Some(ref x)) if x.to_vec() == s.secret)).count();
        if opened == 0 {
            machinery("C07: a seed encapsulation is opened by none of the keys");
        }
        controls += opened;
    }

    let mut mutants: Vec<EncMutant> = vec![];
    for (i, s) in seeds.iter().enumerate() {
        let w = WEnc::decode(&s.bytes).unwrap();
        let all_values = thorough && s.bytes.len() <= 400;
        let quick_skip = !thorough && crate::common::is_sub();
        if !quick_skip {
            for pos in 0..s.bytes.len() {
                let vals: Vec<u8> = if all_values {
                    (0..=255u8).filter(|v| *v != s.bytes[pos]).collect()
                } else if s.bytes.len() > 600 && !thorough {
                    vec![s.bytes[pos] ^ (1 << (pos % 8)), s.bytes[pos] ^ 0x80]
                } else {
                    (0..8).map(|bit| s.bytes[pos] ^ (1 << bit)).chain([0x00, 0xff]).filter(|v| *v != s.bytes[pos]).collect()
                };
                for v in vals {
                    let mut m = s.bytes.clone();
                    m[pos] = v;
                    mutants.push(EncMutant { seed: i, what: format!("byte {pos} -> {v:#04x}"), bytes: m });
                }
            }
            for n in 0..s.bytes.len() {
                mutants.push(EncMutant { seed: i, what: format!("truncated to {n} bytes"), bytes: s.bytes[..n].to_vec() });
            }
            let mut ext = s.bytes.clone();
            ext.push(0);
            mutants.push(EncMutant { seed: i, what: "one byte appended".into(), bytes: ext });
        }
        // alternative encodings of the curve points: every value of the first byte of every trap
        for f in w.fields.iter().filter(|f| f.kind == "enc.trap") {
            for v in 0..=255u8 {
                if v != s.bytes[f.off] {
                    let mut m = s.bytes.clone();
                    m[f.off] = v;
                    mutants.push(EncMutant { seed: i, what: format!("first byte of the trap at offset {} -> {v:#04x}", f.off), bytes: m });
                }
            }
        }
        // non-canonical (over-long) LEB128 encodings of every count / flag field
        for f in w.fields.iter().filter(|f| f.leb) {
            for n in [f.len + 1, f.len + 2, 9, 10] {
                let mut m = s.bytes[..f.off].to_vec();
                wire::leb_enc_padded(f.val, n, &mut m);
                m.extend_from_slice(&s.bytes[f.off + f.len..]);
                mutants.push(EncMutant { seed: i, what: format!("{} ({}) re-encoded as an over-long LEB128 of {n} bytes", f.kind, f.val), bytes: m });
            }
        }
        mutants.extend(structural_mutants(i, &w, Some(&twins[i])));
    }
    // wide encapsulations: 8 / 16 / 32 / 64 targets of either flavour (structural mutants only):
    // a bound on the number of components that are hashed or tried shows up here
    let mut wide_keys: Vec<(usize, Vec<UserSecretKey>)> = vec![];
    for hybrid in [false, true] {
        let wcc = Covercrypt::default();
        let (mut wmsk, _) = wcc.setup().expect("setup");
        wmsk.access_structure.add_anarchy("W".into()).unwrap();
        for i in 0..130 {
            wmsk.access_structure.add_attribute(QualifiedAttribute::new("W", &format!("w{i}")), if hybrid { EncryptionHint::Hybridized } else { EncryptionHint::Classic }, None).unwrap();
        }
        let wmpk = wcc.update_msk(&mut wmsk).unwrap();
        let ks: Vec<UserSecretKey> = ["W::w0", "W::w7", "W::w31", "W::w129"].iter().map(|k| wcc.generate_user_secret_key(&mut wmsk, &p(k)).unwrap()).collect();
        for n in [8usize, 16, 32, 64, 130] {
            let pol = (0..n).map(|i| format!("W::w{i}")).collect::<Vec<_>>().join(" || ");
            let (sec, e) = wcc.encaps(&wmpk, &p(&pol)).unwrap();
            let idx = seeds.len();
            let w = WEnc::decode(&ser(&e)).unwrap();
            if !matches!(wcc.decaps(&ks[0], &e), Ok(Some(ref x)) if x.to_vec() == sec.to_vec()) {
                run.report(None, "C01.w", &format!("an authorised key cannot open a {n}-target {} encapsulation", if hybrid { "hybridized" } else { "classic" }), json!({"engine": "malle-wide"}));
            }
            seeds.push(MalleSeed { name: format!("{} encapsulation with {n} targets", if hybrid { "hybridized" } else { "classic" }), bytes: ser(&e), enc: e, secret: sec.to_vec() });
            wide_keys.push((idx, ks.clone()));
            // over-long encodings of the (possibly two-byte) counts
            for f in w.fields.iter().filter(|f| f.leb) {
                for extra in [1usize, 2] {
                    let mut mb = seeds[idx].bytes[..f.off].to_vec();
                    wire::leb_enc_padded(f.val, f.len + extra, &mut mb);
                    mb.extend_from_slice(&seeds[idx].bytes[f.off + f.len..]);
                    mutants.push(EncMutant { seed: idx, what: format!("{} ({}) re-encoded as an over-long LEB128 of {} bytes", f.kind, f.val, f.len + extra), bytes: mb });
                }
            }
            let mut push = |what: &str, m: WEnc| mutants.push(EncMutant { seed: idx, what: what.to_string(), bytes: m.encode() });
            let mut m = w.clone();
            m.items.push(w.items[0].clone());
            push("first item appended again", m);
            let mut m = w.clone();
            m.items.push(w.items[n - 1].clone());
            push("last item appended again", m);
            let mut m = w.clone();
            m.items.push((w.items[0].0.as_ref().map(|e| vec![0x5a; e.len()]), vec![0xa5; 32]));
            push("a junk item appended", m);
            let mut m = w.clone();
            for _ in 0..n {
                m.items.push(w.items[1].clone());
            }
            push("as many copies of item 1 appended as there are items", m);
            let mut m = w.clone();
            m.items.insert(0, w.items[n - 1].clone());
            push("last item also inserted first", m);
            let mut m = w.clone();
            m.items.pop();
            push("last item dropped", m);
            let mut m = w.clone();
            m.items.swap(n - 2, n - 1);
            push("last two items exchanged", m);
            let mut m = w.clone();
            m.items.swap(0, n - 1);
            push("first and last items exchanged", m);
            // one byte of the ML-KEM ciphertext / of the masked seed of single components, at the
            // first positions, in the middle and at the end of the list
            for j in [0usize, 1, 2, 3, n / 2, n - 2, n - 1] {
                let mut m = w.clone();
                m.items[j].1[5] ^= 0x10;
                push(&format!("one bit of the masked seed of component {j} altered"), m);
                if let Some(e) = &w.items[j].0 {
                    for at in [0, e.len() / 2, e.len() - 1] {
                        let mut m = w.clone();
                        m.items[j].0.as_mut().unwrap()[at] ^= 0x04;
                        push(&format!("one bit (byte {at}) of the ML-KEM ciphertext of component {j} altered"), m);
                    }
                }
            }
            let mut m = w.clone();
            m.traps.push(w.traps[0].clone());
            push("first trap appended again", m);
            let mut m = w.clone();
            m.traps.push(w.traps[1].clone());
            m.traps.push(w.traps[0].clone());
            push("both traps appended again", m);
        }
    }
    // the same "extra traps" mutants on the small seeds
    for i in 0..pols.len() {
        let w = WEnc::decode(&seeds[i].bytes).unwrap();
        let mut m = w.clone();
        m.traps.push(w.traps[0].clone());
        mutants.push(EncMutant { seed: i, what: "first trap appended again".into(), bytes: m.encode() });
        let mut m = w.clone();
        m.traps.extend(w.traps.clone());
        mutants.push(EncMutant { seed: i, what: "all traps appended again".into(), bytes: m.encode() });
    }
    // cross-policy swaps
    let w0 = WEnc::decode(&seeds[0].bytes).unwrap();
    let w1e = WEnc::decode(&seeds[1].bytes).unwrap();
    let mut e = w1e.clone();
    e.items = vec![w1e.items[0].clone()];
    mutants.push(EncMutant { seed: 1, what: "reduced to its first item".into(), bytes: e.encode() });
    let mut e = w0.clone();
    e.items.push(w1e.items[0].clone());
    mutants.push(EncMutant { seed: 0, what: "extended with an item of another encapsulation".into(), bytes: e.encode() });

    let results = par_map(&mutants, |_, m| {
        // one instance per evaluation: a shared instance serialises every call on its mutex
        let cc = &Covercrypt::default();
        let s = &seeds[m.seed];
        if m.bytes == s.bytes {
            return (0u8, None);
        }
        // the genuine encapsulation is read first, in this very thread: a reader that remembers
        // earlier inputs must not let the altered copy pass for the genuine one
        let _ = catch_unwind(|| XEnc::deserialize(&s.bytes));
        let enc = match catch_unwind(|| XEnc::deserialize(&m.bytes)) {
            Ok(Ok(e)) => e,
            Ok(Err(_)) => return (1, None),
            Err(_) => return (1, Some(("C14.a".to_string(), "deserialize panicked".to_string()))),
        };
        if enc == s.enc {
            // different bytes accepted as the very same encapsulation: the serialised form is
            // malleable (the statement quantifies over every byte of the serialised form)
            return (2, Some(("C07.a".to_string(), format!("{} with {}: accepted as the original encapsulation (it deserialises to an equal object)", s.name, m.what))));
        }
        let wide: Option<&Vec<UserSecretKey>> = wide_keys.iter().find(|(i, _)| *i == m.seed).map(|(_, k)| k);
        let wide_named: Vec<(String, UserSecretKey)> = wide.map(|ks| ks.iter().enumerate().map(|(i, k)| (format!("wide key #{i}"), k.clone())).collect()).unwrap_or_default();
        for (kn, k) in if wide.is_some() { wide_named.iter() } else { keys.iter() } {
            match catch_unwind(AssertUnwindSafe(|| cc.decaps(k, &enc))) {
                Ok(Ok(Some(x))) => {
                    let same = x.to_vec() == s.secret;
                    return (2, Some((if same { "C07.a" } else { "C07.b" }.to_string(), format!("{} with {}: key {kn:?} recovers {} secret", s.name, m.what, if same { "the original" } else { "a different" }))));
                }
                Ok(Ok(None)) | Ok(Err(_)) => {}
                Err(_) => return (2, Some(("C14.a".to_string(), format!("{} with {}: decaps panicked", s.name, m.what)))),
            }
        }
        (2, None)
    });
    let (mut skipped, mut parse_rejected, mut decaps_rejected) = (0u64, 0u64, 0u64);
    let mut reported = 0;
    for (m, (class, bad)) in mutants.iter().zip(&results) {
        match class {
            0 => skipped += 1,
            1 => parse_rejected += 1,
            _ => decaps_rejected += 1,
        }
        if let Some((c, msg)) = bad {
            if c.starts_with("C07") && reported < 10 {
                reported += 1;
                run.report(None, c, msg, json!({"engine": "malle", "config": wire::NAME, "mutant": m.what, "input": hex(&m.bytes)}));
            }
        }
    }

    // DEM part: PKE ciphertexts and encrypted metadata
    let mut dem_cases = 0u64;
    let kx = &keys[0].1;
    for ptx_len in [0usize, 1, 16, 17] {
        let ptx: Vec<u8> = (0..ptx_len as u8).collect();
        let ct = PkeAc::<{ Aes256Gcm::KEY_LENGTH }, Aes256Gcm>::encrypt(cc, &b.mpk, &p("A::x"), &ptx).unwrap();
        let ct2 = PkeAc::<{ Aes256Gcm::KEY_LENGTH }, Aes256Gcm>::encrypt(cc, &b.mpk, &p("A::x"), &ptx).unwrap();
        // NB the key Kx was generated before the rekey; the public key used here is the one before the rekey too
        let dec = |c: &(XEnc, Vec<u8>)| catch_unwind(AssertUnwindSafe(|| PkeAc::<{ Aes256Gcm::KEY_LENGTH }, Aes256Gcm>::decrypt(cc, kx, c)));
        if !matches!(dec(&ct), Ok(Ok(Some(ref x))) if **x == ptx) {
            machinery("C07: PKE positive control failed");
        }
        let mut cases: Vec<(String, (XEnc, Vec<u8>))> = vec![];
        for pos in 0..ct.1.len() {
            for bit in 0..8 {
                let mut m = ct.1.clone();
                m[pos] ^= 1 << bit;
                cases.push((format!("ciphertext bit {bit} of byte {pos}"), (ct.0.clone(), m)));
            }
        }
        for n in 0..ct.1.len() {
            cases.push((format!("ciphertext truncated to {n}"), (ct.0.clone(), ct.1[..n].to_vec())));
        }
        cases.push(("encapsulation of another ciphertext".into(), (ct2.0.clone(), ct.1.clone())));
        cases.push(("body of another ciphertext".into(), (ct.0.clone(), ct2.1.clone())));
        for (what, c) in cases {
            dem_cases += 1;
            match dec(&c) {
                Ok(Ok(Some(x))) => run.report(None, "C07.c", &format!("PKE ciphertext ({ptx_len}-byte plaintext) with {what}: decrypts to {}", if *x == ptx { "the original plaintext" } else { "other data" }), json!({"engine": "malle-dem", "what": what})),
                Ok(_) => {}
                Err(_) => run.report(None, "C07.c", &format!("PKE decrypt panicked on {what}"), json!({"engine": "malle-dem", "what": what})),
            }
        }
    }
    // a large plaintext (several 64 KiB units): aligned chunks exchanged, dropped, duplicated, for
    // the chunk sizes a segmented sealing could use
    if !(crate::common::is_sub() && !thorough) {
        let ptx: Vec<u8> = (0..200_000usize).map(|i| (i * 7 % 251) as u8).collect();
        let ct = PkeAc::<{ Aes256Gcm::KEY_LENGTH }, Aes256Gcm>::encrypt(cc, &b.mpk, &p("A::x"), &ptx).unwrap();
        let dec = |c: &(XEnc, Vec<u8>)| catch_unwind(AssertUnwindSafe(|| PkeAc::<{ Aes256Gcm::KEY_LENGTH }, Aes256Gcm>::decrypt(cc, kx, c)));
        if !matches!(dec(&ct), Ok(Ok(Some(ref x))) if **x == ptx) {
            machinery("C07: PKE positive control (large plaintext) failed");
        }
        let body = &ct.1;
        let mut cases: Vec<(String, Vec<u8>)> = vec![];
        for unit in [16usize, 4096, 65_536, 65_536 + 16, 65_536 + 28, 65_536 + 12] {
            for lead in [0usize, 12] {
                let n = (body.len() - lead) / unit;
                if n < 2 {
                    continue;
                }
                let chunk = |i: usize| &body[lead + i * unit..lead + (i + 1) * unit];
                let tail = &body[lead + n * unit..];
                let build = |order: &[usize], with_tail: bool| {
                    let mut v = body[..lead].to_vec();
                    for &i in order {
                        v.extend_from_slice(chunk(i));
                    }
                    if with_tail {
                        v.extend_from_slice(tail);
                    }
                    v
                };
                let id: Vec<usize> = (0..n).collect();
                let mut sw = id.clone();
                sw.swap(0, 1);
                cases.push((format!("{unit}-byte chunks 0 and 1 exchanged (after {lead} leading bytes)"), build(&sw, true)));
                let mut sw = id.clone();
                sw.swap(0, n - 1);
                cases.push((format!("{unit}-byte chunks 0 and {} exchanged (after {lead} leading bytes)", n - 1), build(&sw, true)));
                cases.push((format!("last whole {unit}-byte chunk dropped (after {lead} leading bytes)"), build(&id[..n - 1], true)));
                cases.push((format!("everything after the last whole {unit}-byte chunk dropped (after {lead} leading bytes)"), build(&id, false)));
                cases.push((format!("only the first {unit}-byte chunk kept (after {lead} leading bytes)"), build(&id[..1], false)));
                let mut dup = id.clone();
                dup.insert(1, 0);
                cases.push((format!("{unit}-byte chunk 0 duplicated (after {lead} leading bytes)"), build(&dup, true)));
            }
        }
        for pos in [0usize, 11, 12, 65_535, 65_536, 65_548, 65_564, 131_072, body.len() - 17, body.len() - 1] {
            let mut m = body.clone();
            m[pos] ^= 1;
            cases.push((format!("bit 0 of byte {pos} of a {}-byte ciphertext", body.len()), m));
        }
        for (what, m) in cases {
            if m == *body {
                continue;
            }
            dem_cases += 1;
            match dec(&(ct.0.clone(), m)) {
                Ok(Ok(Some(x))) => run.report(None, "C07.c", &format!("PKE ciphertext (200 000-byte plaintext) with {what}: decrypts to {}", if *x == ptx { "the original plaintext" } else { "other data" }), json!({"engine": "malle-dem", "what": what})),
                Ok(_) => {}
                Err(_) => run.report(None, "C07.c", &format!("PKE decrypt panicked on {what}"), json!({"engine": "malle-dem", "what": what})),
            }
        }
    }
    for (md_len, ad) in [(1usize, None), (20, None), (20, Some(&b"ad"[..]))] {
        let md: Vec<u8> = (0..md_len as u8).collect();
        let (_, hdr) = EncryptedHeader::generate(cc, &b.mpk, &p("A::x"), Some(&md), ad).unwrap();
        let em = hdr.encrypted_metadata.clone().unwrap();
        let mut cases: Vec<(String, Vec<u8>, Option<&[u8]>)> = vec![];
        for pos in 0..em.len() {
            for bit in 0..8 {
                let mut m = em.clone();
                m[pos] ^= 1 << bit;
                cases.push((format!("metadata bit {bit} of byte {pos}"), m, ad));
            }
        }
        for n in 1..em.len() {
            cases.push((format!("metadata truncated to {n}"), em[..n].to_vec(), ad));
        }
        cases.push(("authentication data changed".into(), em.clone(), Some(&b"other"[..])));
        for (what, m, ad2) in cases {
            dem_cases += 1;
            let h = EncryptedHeader { encapsulation: hdr.encapsulation.clone(), encrypted_metadata: Some(m) };
            match catch_unwind(AssertUnwindSafe(|| h.decrypt(cc, kx, ad2))) {
                Ok(Ok(Some(_))) => run.report(None, "C07.c", &format!("encrypted header ({md_len}-byte metadata) with {what}: accepted"), json!({"engine": "malle-dem", "what": what})),
                Ok(_) => {}
                Err(_) => run.report(None, "C07.c", &format!("header decrypt panicked on {what}"), json!({"engine": "malle-dem", "what": what})),
            }
        }
    }

    // serialised headers: the (two-byte) metadata length and the counts of the inner encapsulation
    // re-encoded as over-long LEB128
    for md_len in [20usize, 120, 300] {
        let md = vec![0x33u8; md_len];
        let (_, hdr) = EncryptedHeader::generate(cc, &b.mpk, &p("A::x"), Some(&md), Some(b"ad")).unwrap();
        let bytes = ser(&hdr);
        let Ok(w) = wire::WHeader::decode(&bytes) else { continue };
        for f in w.fields.iter().filter(|f| f.leb) {
            for extra in [1usize, 2] {
                dem_cases += 1;
                let mut mb = bytes[..f.off].to_vec();
                wire::leb_enc_padded(f.val, f.len + extra, &mut mb);
                mb.extend_from_slice(&bytes[f.off + f.len..]);
                if let Ok(Ok(h2)) = catch_unwind(|| EncryptedHeader::deserialize(&mb)) {
                    if let Ok(Ok(Some(_))) = catch_unwind(AssertUnwindSafe(|| h2.decrypt(cc, kx, Some(b"ad")))) {
                        run.report(None, "C07.c", &format!("serialised header ({md_len}-byte metadata) with {} ({}) re-encoded as an over-long LEB128: accepted", f.kind, f.val), json!({"engine": "malle-dem", "what": f.kind}));
                    }
                }
            }
        }
    }
    run.set("evaluations", json!(mutants.len() as u64 + dem_cases));
    run.set("distinct_nontrivial", json!(decaps_rejected));
    run.set("rule", json!("5 seed encapsulations (classic 1/2/3 targets, hybridized 1/2 targets) plus 8 wide ones (8/16/32/64 targets of either flavour, structural mutants only: items and traps appended, inserted, dropped, exchanged): every byte x {8 bit flips, 0x00, 0xff} (thorough: all 255 values for encapsulations <= 400 B; quick: 2 flips per byte above 600 B), every truncation, one-byte extension; all 255 values of the first byte of every trap (alternative point encodings); every count / flag field re-encoded as an over-long LEB128; every permutation / drop / duplication of items, ML-KEM ciphertexts, masked seeds and traps, flavour flips, and every swap of tag / traps / items / single components with an independent encapsulation of the same policy; each parsed mutant is decapsulated with 7 keys (authorised through each target, through an older revision, twin, unauthorised). PKE ciphertexts (0/1/16/17-byte plaintexts) and encrypted metadata: every bit, every truncation, swaps, changed authentication data. distinct_nontrivial = mutants that parse and are then refused by every key"));
    run.set("mutants", json!(mutants.len()));
    run.set("rejected_at_parse", json!(parse_rejected));
    run.set("parsed_then_refused_by_every_key", json!(decaps_rejected));
    run.set("identical_to_original_skipped", json!(skipped));
    run.set("dem_cases", json!(dem_cases));
    run.set("positive_controls", json!(controls));
    run.set("keys", json!(keys.iter().map(|(n, _)| n.clone()).collect::<Vec<_>>()));
    run.set("exhaustive", json!(true));
    for m in mutants.iter().step_by((mutants.len() / 6).max(1)) {
        run.sample(json!({"seed": seeds[m.seed].name, "mutant": m.what}));
    }
    run.assume("a modification that needs a 128-bit tag collision or a hash collision is out of scope");
    if decaps_rejected == 0 || parse_rejected == 0 {
        machinery("C07 driver is vacuous");
    }
    run.finish()
}

/// C11 ("carries ML-KEM ciphertexts bound into the tag"): in hybridized encapsulations with 1-6
/// targets, altering any single ML-KEM ciphertext makes the encapsulation useless for EVERY key,
/// not only for the key whose component was altered.
pub fn hybrid_binding(run: &mut Run) {
    let cc = Covercrypt::default();
    let (mut msk, _) = cc.setup().expect("setup");
    msk.access_structure.add_anarchy("W".into()).unwrap();
    for i in 0..6 {
        msk.access_structure.add_attribute(QualifiedAttribute::new("W", &format!("w{i}")), EncryptionHint::Hybridized, None).unwrap();
    }
    let mpk = cc.update_msk(&mut msk).unwrap();
    let keys: Vec<UserSecretKey> = (0..6).map(|i| cc.generate_user_secret_key(&mut msk, &p(&format!("W::w{i}"))).unwrap()).collect();
    let mut cases = 0u64;
    for n in 1..=6usize {
        let pol = (0..n).map(|i| format!("W::w{i}")).collect::<Vec<_>>().join(" || ");
        let (_, e) = cc.encaps(&mpk, &p(&pol)).unwrap();
        let w = WEnc::decode(&ser(&e)).unwrap();
        if !w.hybrid {
            run.report(None, "C11.d", &format!("an encapsulation for {n} hybridized rights is not hybridized"), json!({"engine": "binding"}));
            continue;
        }
        for j in 0..n {
            let len = w.items[j].0.as_ref().map_or(0, Vec::len);
            for at in [0, 1, len / 2, len - 2, len - 1] {
                let mut m = w.clone();
                m.items[j].0.as_mut().unwrap()[at] ^= 0x20;
                let Ok(x) = XEnc::deserialize(&m.encode()) else { continue };
                cases += 1;
                for (k, key) in keys.iter().enumerate().take(n) {
                    if let Ok(Ok(Some(_))) = catch_unwind(AssertUnwindSafe(|| cc.decaps(key, &x))) {
                        run.report(None, "C11.t", &format!("hybridized encapsulation with {n} targets, byte {at} of the ML-KEM ciphertext of component {j} altered: the key for W::w{k} still opens it - that ciphertext is not bound into the tag"), json!({"engine": "binding", "targets": n, "component": j}));
                        return;
                    }
                }
            }
        }
    }
    run.set("ml_kem_ciphertext_binding_cases", json!(cases));
}

/// C09 for decapsulation of well-formed encapsulations nobody can open (no component, no trap,
/// traps replaced by the encoding of the neutral element, a foreign encapsulation): the call
/// succeeds with "no secret" - none of the documented error situations applies.
pub fn hollow_contract(run: &mut Run) {
    let mut b = w1();
    let cc = &b.cc;
    let keys: Vec<(&str, UserSecretKey)> = ["A::x", "A::y && H::lo", "H::hi"].iter().map(|k| (*k, cc.generate_user_secret_key(&mut b.msk, &p(k)).unwrap())).collect();
    let other = w1();
    let mut cases = 0u64;
    for pol in ["A::x", "H::hi", "A::x || A::y"] {
        let (_, e) = cc.encaps(&b.mpk, &p(pol)).unwrap();
        let w = WEnc::decode(&ser(&e)).unwrap();
        let mut variants: Vec<(String, Vec<u8>)> = vec![];
        let mut m = w.clone();
        m.items.clear();
        variants.push(("without right-encapsulations".into(), m.encode()));
        let mut m = w.clone();
        m.traps.clear();
        variants.push(("without traps".into(), m.encode()));
        let mut m = w.clone();
        m.traps.pop();
        variants.push(("with one trap less".into(), m.encode()));
        for which in 0..=w.traps.len() {
            let mut m = w.clone();
            for (i, t) in m.traps.iter_mut().enumerate() {
                if which == w.traps.len() || i == which {
                    t.iter_mut().for_each(|x| *x = 0);
                }
            }
            variants.push((if which == w.traps.len() { "with every trap replaced by zero bytes".to_string() } else { format!("with trap {which} replaced by zero bytes") }, m.encode()));
        }
        let (_, foreign) = other.cc.encaps(&other.mpk, &p(pol)).unwrap();
        variants.push(("made under another master key".into(), ser(&foreign)));
        for (what, bytes) in variants {
            let Ok(x) = XEnc::deserialize(&bytes) else { continue };
            for (kn, k) in &keys {
                cases += 1;
                match catch_unwind(AssertUnwindSafe(|| cc.decaps(k, &x))) {
                    Ok(Ok(None)) => {}
                    Ok(Ok(Some(_))) => run.report(None, "C09.e", &format!("decaps of an encapsulation of {pol:?} {what} with the key {kn}: returned a secret"), json!({"engine": "hollow", "input": hex(&bytes)})),
                    Ok(Err(e)) => run.report(None, "C09.d", &format!("decaps of an encapsulation of {pol:?} {what} with the key {kn}: Err({e}); nobody can open it, but it is a well-formed encapsulation and none of the documented error situations"), json!({"engine": "hollow", "input": hex(&bytes)})),
                    Err(_) => run.report(None, "C09.p", &format!("decaps of an encapsulation of {pol:?} {what} with the key {kn}: panicked"), json!({"engine": "hollow", "input": hex(&bytes)})),
                }
            }
        }
    }
    run.set("hollow_encapsulation_decaps_cases", json!(cases));
}

// =======================================================================================
// C08

struct Issued {
    name: String,
    usk: UserSecretKey,
    w: WUsk,
    bytes: Vec<u8>,
}

#[derive(Clone)]
struct Forgery {
    key: usize,
    class: &'static str,
    what: String,
    bytes: Vec<u8>,
}

/// All re-segmentations of the classic part of the MAC stream (after the markers) into
/// chains (name of any length >= 0, >= 1 classic secrets), with at most `max_chains` chains.
fn reframings(w: &WUsk, max_chains: usize, cap: usize) -> Vec<Vec<(Vec<u8>, Vec<WRsk>)>> {
    let mut stream = vec![];
    for (name, chain) in &w.chains {
        stream.extend_from_slice(name);
        for k in chain {
            if k.dk.is_some() {
                return vec![];
            }
            stream.extend_from_slice(&k.sk);
        }
    }
    let n = stream.len();
    let mut out: Vec<Vec<(Vec<u8>, Vec<WRsk>)>> = vec![];
    // recursive: at offset `off`, start a chain: name length l, then k secrets
    fn rec(stream: &[u8], off: usize, chains: &mut Vec<(Vec<u8>, Vec<WRsk>)>, max_chains: usize, out: &mut Vec<Vec<(Vec<u8>, Vec<WRsk>)>>, cap: usize) {
        if out.len() >= cap {
            return;
        }
        if off == stream.len() {
            if !chains.is_empty() {
                out.push(chains.clone());
            }
            return;
        }
        if chains.len() >= max_chains {
            return;
        }
        let rest = stream.len() - off;
        for l in 0..=rest {
            let after_name = rest - l;
            if after_name < 32 {
                break;
            }
            let name = stream[off..off + l].to_vec();
            let mut k = 1;
            while k * 32 <= after_name {
                let mut secrets = vec![];
                for i in 0..k {
                    let st = off + l + i * 32;
                    secrets.push(WRsk { sk: stream[st..st + 32].to_vec(), dk: None });
                }
                chains.push((name.clone(), secrets));
                rec(stream, off + l + k * 32, chains, max_chains, out, cap);
                chains.pop();
                k += 1;
            }
        }
    }
    let mut chains = vec![];
    rec(&stream, 0, &mut chains, max_chains, &mut out, cap);
    let _ = n;
    out
}

fn forgeries(keys: &[Issued], ki: usize, msk_rights: &[Vec<u8>], reframe_cap: usize) -> Vec<Forgery> {
    let k = &keys[ki];
    let w = &k.w;
    let mut out = vec![];
    let mut push = |class: &'static str, what: String, u: WUsk| {
        let b = u.encode();
        out.push(Forgery { key: ki, class, what, bytes: b });
    };
    let n = w.chains.len();
    // 1. rights
    for i in 0..n {
        let mut u = w.clone();
        u.chains.remove(i);
        push("rights", format!("chain {i} removed"), u);
        let mut u = w.clone();
        u.chains.insert(i, w.chains[i].clone());
        push("rights", format!("chain {i} duplicated"), u);
        for j in (i + 1)..n {
            let mut u = w.clone();
            u.chains.swap(i, j);
            push("rights", format!("chains {i} and {j} exchanged"), u);
            let mut u = w.clone();
            let (a, b) = (u.chains[i].0.clone(), u.chains[j].0.clone());
            u.chains[i].0 = b;
            u.chains[j].0 = a;
            push("rights", format!("names of chains {i} and {j} exchanged"), u);
        }
        for r in msk_rights {
            if r != &w.chains[i].0 {
                let mut u = w.clone();
                u.chains[i].0 = r.clone();
                push("rights", format!("chain {i} renamed to right {}", hex(r)), u);
            }
        }
        let mut u = w.clone();
        u.chains[i].0 = vec![0x7e];
        push("rights", format!("chain {i} renamed to a fresh right"), u);
        let mut u = w.clone();
        u.chains[i].0.push(0x05);
        push("rights", format!("one byte appended to the name of chain {i}"), u);
        if !w.chains[i].0.is_empty() {
            let mut u = w.clone();
            u.chains[i].0.pop();
            push("rights", format!("one byte removed from the name of chain {i}"), u);
            let mut u = w.clone();
            u.chains[i].0[0] ^= 1;
            push("rights", format!("name of chain {i} altered"), u);
        }
    }
    for r in msk_rights {
        if !w.chains.iter().any(|c| &c.0 == r) {
            let mut u = w.clone();
            u.chains.push((r.clone(), w.chains[0].1.clone()));
            push("rights", format!("right {} added with the secrets of chain 0", hex(r)), u);
        }
    }
    // 2. secrets
    for i in 0..n {
        for si in 0..w.chains[i].1.len() {
            let mut u = w.clone();
            let s = u.chains[i].1.remove(si);
            if !u.chains[i].1.is_empty() {
                push("secrets", format!("secret {si} of chain {i} dropped"), u.clone());
            }
            for j in 0..n {
                if j == i {
                    continue;
                }
                for pos in 0..=w.chains[j].1.len() {
                    let mut v = u.clone();
                    v.chains[j].1.insert(pos, s.clone());
                    if v.chains[i].1.is_empty() {
                        v.chains.remove(i);
                    }
                    push("secrets", format!("secret {si} of chain {i} moved to position {pos} of chain {j}"), v);
                }
            }
            let mut u = w.clone();
            u.chains[i].1.insert(si, w.chains[i].1[si].clone());
            push("secrets", format!("secret {si} of chain {i} duplicated"), u);
            for j in (i + 1)..n {
                for sj in 0..w.chains[j].1.len() {
                    let mut u = w.clone();
                    let a = u.chains[i].1[si].clone();
                    u.chains[i].1[si] = u.chains[j].1[sj].clone();
                    u.chains[j].1[sj] = a;
                    push("secrets", format!("secret {si} of chain {i} exchanged with secret {sj} of chain {j}"), u);
                }
            }
            let mut u = w.clone();
            u.chains[i].1[si].sk[5] ^= 0x10;
            push("secrets", format!("secret {si} of chain {i} altered"), u);
            for at in [0usize, 16, 31] {
                let mut u = w.clone();
                u.chains[i].1[si].sk[at] ^= 0x01;
                push("secrets", format!("byte {at} of the scalar of secret {si} of chain {i} altered"), u);
            }
            // the ML-KEM half: positions all over the decapsulation key (its head, every ~100th
            // byte, and its tail: embedded encapsulation key, its hash, the rejection value)
            if let Some(dk) = &w.chains[i].1[si].dk {
                let n = dk.len();
                let mut ats: Vec<usize> = vec![0, 1, n / 2, n - 97, n - 89, n - 88, n - 65, n - 64, n - 33, n - 32, n - 2, n - 1];
                ats.extend((0..n).step_by(101));
                ats.sort_unstable();
                ats.dedup();
                for at in ats {
                    let mut u = w.clone();
                    u.chains[i].1[si].dk.as_mut().unwrap()[at] ^= 0x01;
                    push("secrets", format!("byte {at} of the ML-KEM key of secret {si} of chain {i} altered"), u);
                }
            }
            // 4. flavour
            match &w.chains[i].1[si].dk {
                Some(_) => {
                    let mut u = w.clone();
                    u.chains[i].1[si].dk = None;
                    push("flavour", format!("secret {si} of chain {i} hybrid -> classic"), u);
                }
                None => {
                    if let Some(dk) = w.chains.iter().flat_map(|c| c.1.iter()).find_map(|s| s.dk.clone()) {
                        let mut u = w.clone();
                        u.chains[i].1[si].dk = Some(dk);
                        push("flavour", format!("secret {si} of chain {i} classic -> hybrid with a neighbour's ML-KEM key"), u);
                    }
                }
            }
        }
        if w.chains[i].1.len() > 1 {
            let mut u = w.clone();
            u.chains[i].1.reverse();
            push("secrets", format!("chain {i} reversed"), u);
        }
    }
    // chains without any secret: a right name split in two ((xy, C) -> (x, no secret), (y, C)) keeps
    // the MAC input byte-identical; an empty chain under a fresh name changes it
    for i in 0..n {
        let name = &w.chains[i].0;
        for cut in 1..name.len() {
            let mut u = w.clone();
            u.chains[i].0 = name[cut..].to_vec();
            u.chains.insert(i, (name[..cut].to_vec(), vec![]));
            push("empty-chain", format!("name of chain {i} split at byte {cut}: first part becomes a right with no secret"), u);
        }
        let mut u = w.clone();
        u.chains.insert(i, (vec![0x7d], vec![]));
        push("empty-chain", format!("a right with no secret inserted before chain {i}"), u);
        let mut u = w.clone();
        u.chains.insert(i + 1, (vec![], vec![]));
        push("empty-chain", format!("an unnamed right with no secret inserted after chain {i}"), u);
    }
    // exchange with another issued key
    for (oi, o) in keys.iter().enumerate() {
        if oi == ki {
            continue;
        }
        let mut u = w.clone();
        u.chains = o.w.chains.clone();
        push("splice", format!("id and signature of this key, chains of key {oi}"), u);
        let mut u = w.clone();
        u.id = o.w.id.clone();
        push("splice", format!("id of key {oi}"), u);
        let mut u = w.clone();
        u.sig = o.w.sig.clone();
        push("splice", format!("signature of key {oi}"), u);
        let mut u = w.clone();
        u.id = o.w.id.clone();
        u.sig = o.w.sig.clone();
        push("splice", format!("id and signature of key {oi}, chains of this key"), u);
        if let (Some(a), Some(b)) = (w.chains.first(), o.w.chains.first()) {
            if a.0 == b.0 && a.1 != b.1 {
                let mut u = w.clone();
                u.chains[0].1 = b.1.clone();
                push("splice", format!("secrets of chain 0 of key {oi}"), u);
            }
        }
    }
    // 5. identity and signature
    for mi in 0..w.id.len() {
        let mut u = w.clone();
        u.id[mi][3] ^= 0x04;
        push("identity", format!("marker {mi} altered"), u);
    }
    if w.id.len() > 1 {
        let mut u = w.clone();
        u.id.swap(0, 1);
        push("identity", "markers exchanged".into(), u);
        let mut u = w.clone();
        u.id.pop();
        push("identity", "one marker removed".into(), u);
    }
    if let Some(sig) = &w.sig {
        let mut u = w.clone();
        u.sig = None;
        push("signature", "signature stripped".into(), u);
        for cut in [1usize, 16, 31] {
            let mut b = w.encode();
            b.truncate(b.len() - (32 - cut));
            out.push(Forgery { key: ki, class: "signature", what: format!("signature truncated to {cut} bytes"), bytes: b });
        }
        for i in 0..sig.len() {
            let mut u = w.clone();
            let mut s = sig.clone();
            s[i] ^= 1 << (i % 8);
            u.sig = Some(s);
            out.push(Forgery { key: ki, class: "signature", what: format!("signature byte {i} altered"), bytes: u.encode() });
        }
        let mut u = w.clone();
        u.sig = Some(vec![0u8; 32]);
        out.push(Forgery { key: ki, class: "signature", what: "all-zero signature".into(), bytes: u.encode() });
    }
    // 3. re-framings: same MAC stream, different arrangement
    for chains in reframings(w, n + 1, reframe_cap) {
        if chains == w.chains {
            continue;
        }
        let mut u = w.clone();
        u.chains = chains;
        if u.mac_stream() != w.mac_stream() {
            machinery("re-framing changed the MAC stream");
        }
        let desc: Vec<String> = u.chains.iter().map(|(nm, c)| format!("{}:{}", hex(nm).chars().take(12).collect::<String>(), c.len())).collect();
        out.push(Forgery { key: ki, class: "reframing", what: format!("same MAC stream re-framed as [{}]", desc.join(" ")), bytes: u.encode() });
    }
    out
}

pub fn check_c08(prop: &str, tier: &str) -> i32 {
    let thorough = tier == "thorough";
    let mut run = Run::new(prop, tier, "fault_enumeration");
    let mut b = w1();
    let mut other = w1();
    let cc = Covercrypt::default();
    let mut issued: Vec<Issued> = vec![];
    fn add_to(issued: &mut Vec<Issued>, name: String, usk: UserSecretKey) {
        let bytes = ser(&usk);
        let w = WUsk::decode(&bytes).unwrap_or_else(|e| machinery(&format!("issued key does not decode: {e}")));
        issued.push(Issued { name, usk, w, bytes });
    }
    macro_rules! add {
        ($n:expr, $u:expr) => {
            add_to(&mut issued, $n, $u)
        };
    }
    // a one-attribute structure gives 2-chain keys; W1 gives 4- and 6-chain keys
    let (mut small, _) = cc.setup().unwrap();
    small.access_structure.add_anarchy("A".into()).unwrap();
    small.access_structure.add_attribute(QualifiedAttribute::new("A", "x"), EncryptionHint::Classic, None).unwrap();
    small.access_structure.add_attribute(QualifiedAttribute::new("A", "y"), EncryptionHint::Classic, None).unwrap();
    cc.update_msk(&mut small).unwrap();
    // chain orders: regenerate until the broadcast right has been seen first and not first
    let mut orders: BTreeSet<Vec<Vec<u8>>> = BTreeSet::new();
    let mut tries = 0;
    while tries < 64 && orders.len() < 2 {
        tries += 1;
        let u = cc.generate_user_secret_key(&mut small, &p("A::x")).unwrap();
        let w = WUsk::decode(&ser(&u)).unwrap();
        let order: Vec<Vec<u8>> = w.chains.iter().map(|c| c.0.clone()).collect();
        if orders.insert(order) {
            add!(format!("small: key for A::x (2 chains), chain order #{}", orders.len()), u);
        }
    }
    let mut u = cc.generate_user_secret_key(&mut small, &p("A::x")).unwrap();
    cc.rekey(&mut small, &p("A::x")).unwrap();
    cc.refresh_usk(&mut small, &mut u, true).unwrap();
    add!("small: key for A::x after rekey + refresh(keep) (2 revisions)".into(), u.clone());
    cc.rekey(&mut small, &p("*")).unwrap();
    cc.refresh_usk(&mut small, &mut u, true).unwrap();
    add!("small: key for A::x after two rekeys (3 revisions)".into(), u);
    let small_keys = issued.len();
    let k4 = cc.generate_user_secret_key(&mut b.msk, &p("A::x && H::lo")).unwrap();
    add!("W1: key for A::x && H::lo (4 classic chains)".into(), k4);
    let mut k6 = cc.generate_user_secret_key(&mut b.msk, &p("A::x && H::hi")).unwrap();
    add!("W1: key for A::x && H::hi (6 chains, 3 hybridized)".into(), k6.clone());
    cc.rekey(&mut b.msk, &p("A::x && H::lo")).unwrap();
    cc.refresh_usk(&mut b.msk, &mut k6, true).unwrap();
    add!("W1: key for A::x && H::hi after a partial rekey (chains of different lengths)".into(), k6);
    // a structure with more than 128 attributes: right names of two bytes
    let (mut bigm, _) = cc.setup().unwrap();
    bigm.access_structure.add_anarchy("W".into()).unwrap();
    for i in 0..130 {
        bigm.access_structure.add_attribute(QualifiedAttribute::new("W", &format!("w{i}")), EncryptionHint::Classic, None).unwrap();
    }
    cc.update_msk(&mut bigm).unwrap();
    let w1_keys = issued.len();
    let mut kb = cc.generate_user_secret_key(&mut bigm, &p("W::w129")).unwrap();
    add!("big: key for W::w129 (right name of two bytes)".into(), kb.clone());
    cc.rekey(&mut bigm, &p("W::w129")).unwrap();
    cc.refresh_usk(&mut bigm, &mut kb, true).unwrap();
    add!("big: key for W::w129 after rekey + refresh(keep)".into(), kb);
    let foreign = cc.generate_user_secret_key(&mut other.msk, &p("A::x && H::lo")).unwrap();

    // positive control: every issued key refreshes with its own master key (on a copy)
    for (i, k) in issued.iter().enumerate() {
        let msk = if i < small_keys { &mut small } else if i < w1_keys { &mut b.msk } else { &mut bigm };
        let mut c = k.usk.clone();
        if cc.refresh_usk(msk, &mut c, true).is_err() {
            machinery(&format!("C08: issued key {:?} does not refresh", k.name));
        }
    }
    let rights_of = |m: &MasterSecretKey| -> Vec<Vec<u8>> { wire::WMsk::decode(&ser(m)).unwrap().rights.keys().cloned().collect() };
    let small_rights = rights_of(&small);
    let w1_rights = rights_of(&b.msk);
    let big_rights: Vec<Vec<u8>> = rights_of(&bigm).into_iter().filter(|r| r.len() <= 1 || r == &wire::ids_right(&[128]) || r == &wire::ids_right(&[1])).take(6).collect();
    let mut all: Vec<Forgery> = vec![];
    for ki in 0..issued.len() {
        let rights = if ki < small_keys { &small_rights } else if ki < w1_keys { &w1_rights } else { &big_rights };
        let cap = if thorough { 200_000 } else { 20_000 };
        // re-framings are enumerated for keys of <= 3 chains in the quick tier, <= 4 in the thorough one
        let allow = issued[ki].w.chains.iter().map(|c| c.1.len()).sum::<usize>() <= if thorough { 6 } else { 4 } && issued[ki].w.chains.iter().all(|c| c.1.iter().all(|k| k.dk.is_none()));
        all.extend(forgeries(&issued, ki, rights, if allow { cap } else { 0 }));
    }
    // a key issued after the master key was saved, presented to the restored copy (valid
    // signature, identifier never registered there); the saved master key knows no user at all
    // in the first round, several in the second
    for round in 0..2 {
        let mut fresh = w1();
        let saved = if round == 0 { ser(&fresh.msk) } else { ser(&b.msk) };
        let late = if round == 0 { cc.generate_user_secret_key(&mut fresh.msk, &p("A::x && H::lo")).unwrap() } else { cc.generate_user_secret_key(&mut b.msk, &p("A::x && H::lo")).unwrap() };
        let mut restored = MasterSecretKey::deserialize(&saved).unwrap();
        let before = ser(&restored);
        for keep in [true, false] {
            let mut c = late.clone();
            match catch_unwind(AssertUnwindSafe(|| cc.refresh_usk(&mut restored, &mut c, keep))) {
                Ok(Ok(())) => run.report(None, "C08.a", &format!("a key issued after the master key was saved is accepted by the restored master key (refresh keep={keep}): its identifier was never registered there"), json!({"engine": "forge", "class": "unknown-id"})),
                Ok(Err(_)) => {
                    if c != late || !msk_equal_canon(&before, &ser(&restored)) {
                        run.report(None, "C08.b", "refusing a key with an unknown identifier modified the key or the master key", json!({"engine": "forge", "class": "unknown-id"}));
                    }
                }
                Err(_) => run.report(None, "C08.a", "refresh of a key with an unknown identifier panicked", json!({"engine": "forge", "class": "unknown-id"})),
            }
        }
    }
    // a key issued by another master key
    all.push(Forgery { key: small_keys, class: "foreign", what: "a key issued by another master key over the same structure".into(), bytes: ser(&foreign) });

    // evaluate sequentially per master key (refresh needs &mut msk); cheap: KMAC only
    let (mut parse_rejected, mut refused, mut skipped) = (0u64, 0u64, 0u64);
    let mut per_class: std::collections::BTreeMap<&str, (u64, u64)> = Default::default();
    let mut known_reported = 0;
    let mut reported = 0;
    let mut same_mac = 0u64;
    for f in &all {
        let k = &issued[f.key];
        if issued.iter().any(|i| i.bytes == f.bytes) {
            skipped += 1;
            continue;
        }
        let msk = if f.key < small_keys { &mut small } else if f.key < w1_keys { &mut b.msk } else { &mut bigm };
        let Ok(Ok(usk)) = catch_unwind(|| UserSecretKey::deserialize(&f.bytes)) else {
            parse_rejected += 1;
            per_class.entry(f.class).or_default().0 += 1;
            continue;
        };
        if issued.iter().any(|i| i.usk == usk) {
            skipped += 1;
            continue;
        }
        per_class.entry(f.class).or_default().1 += 1;
        // whatever produced it, a forgery whose MAC input is byte-identical to the issued key's
        // is a re-framing (the unframed-MAC finding); everything else must be refused
        // (and every chain holds at least one secret, as in every key the library can parse today)
        let same_mac_input = WUsk::decode(&f.bytes).map(|w| w.mac_stream() == k.w.mac_stream() && w.sig == k.w.sig && w.chains.iter().all(|c| !c.1.is_empty())).unwrap_or(false);
        if same_mac_input {
            same_mac += 1;
        }
        let before_m = ser(msk);
        for keep in [true, false] {
            let mut c = usk.clone();
            let r = catch_unwind(AssertUnwindSafe(|| cc.refresh_usk(msk, &mut c, keep)));
            let after_m = ser(msk);
            match r {
                Ok(Ok(())) => {
                    let msg = format!("{}: {} -> refresh(keep={keep}) accepted it", k.name, f.what);
                    let replay = json!({"engine": "forge", "config": wire::NAME, "class": f.class, "what": f.what, "input": hex(&f.bytes)});
                    if same_mac_input {
                        if known_reported < 1 || run.findings.is_open("C08-unframed-mac").is_none() {
                            run.report(Some("C08-unframed-mac"), "C08.a", &msg, replay);
                        }
                        known_reported += 1;
                    } else if reported < 10 {
                        reported += 1;
                        run.report(None, "C08.a", &msg, replay);
                    }
                    // the accepted refresh registered nothing new, but restore the master key state for the next case
                    break;
                }
                Ok(Err(_)) => {
                    refused += 1;
                    if after_m != before_m && !msk_equal_canon(&before_m, &after_m) {
                        run.report(None, "C08.b", &format!("{}: {} -> refused, but the master key was modified", k.name, f.what), json!({"engine": "forge", "what": f.what, "input": hex(&f.bytes)}));
                    }
                    if c != usk {
                        run.report(None, "C08.b", &format!("{}: {} -> refused, but the user key was modified", k.name, f.what), json!({"engine": "forge", "what": f.what, "input": hex(&f.bytes)}));
                    }
                }
                Err(_) => run.report(None, "C08.a", &format!("{}: {} -> refresh panicked", k.name, f.what), json!({"engine": "forge", "what": f.what, "input": hex(&f.bytes)})),
            }
        }
    }
    run.set("evaluations", json!(all.len()));
    run.set("distinct_nontrivial", json!(refused / 2));
    run.set("rule", json!("issued keys: 2-chain keys in every observed chain order, with 1/2/3 revisions; 4-chain classic key; 6-chain key with 3 hybridized rights; the same after a partial rekey (chains of different lengths); for each: every chain removed / duplicated / pair exchanged / renamed (to every other right of the master key, a fresh right, one byte appended / removed / altered), rights added; every secret dropped / duplicated / altered / moved to every position of every other chain / exchanged with every secret of every other chain, chains reversed; flavour of every secret flipped; id, signature and chains spliced with every other issued key; markers altered / exchanged / removed; signature stripped / truncated / every byte altered / zeroed; a key of another master key; a key issued after the master key was saved, presented to the restored copy; right names split so that one part becomes a right without secret, rights without secret inserted; and EVERY re-framing of the MAC input (same byte stream cut into different names and 32-byte secrets) for classic keys of <= 4 (thorough 6) secrets (capped at 20 000 / 200 000 per key). Each forgery that parses is passed to refresh_usk with both flags; master key and user key are compared before/after. distinct_nontrivial = forgeries that parse and are refused"));
    run.set("forgeries", json!(all.len()));
    run.set("rejected_at_parse", json!(parse_rejected));
    run.set("identical_to_an_issued_key_skipped", json!(skipped));
    run.set("refusals_checked", json!(refused));
    run.set("per_class_rejected_at_parse_and_evaluated", json!(per_class.iter().map(|(k, v)| (k.to_string(), json!([v.0, v.1]))).collect::<serde_json::Map<_, _>>()));
    run.set("reframings_accepted_known_finding", json!(known_reported));
    run.set("forgeries_with_byte_identical_mac_input", json!(same_mac));
    run.set("chain_orders_observed_for_2_chain_keys", json!(orders.len()));
    run.set("issued_keys", json!(issued.iter().map(|k| k.name.clone()).collect::<Vec<_>>()));
    run.set("exhaustive", json!(true));
    for f in all.iter().step_by((all.len() / 8).max(1)) {
        run.sample(json!({"key": issued[f.key].name, "class": f.class, "forgery": f.what}));
    }
    run.assume("re-framings of hybridized secrets (1664-byte units) are not enumerated; flavour flips cover them");
    if refused == 0 {
        machinery("C08 driver is vacuous");
    }
    run.finish()
}

// =======================================================================================
// C12

pub fn part_c12(run: &mut Run, tier: &str) {
    let thorough = tier == "thorough";
    let mut b = w1();
    let cc = &b.cc;
    let k_auth = cc.generate_user_secret_key(&mut b.msk, &p("A::x")).unwrap();
    let k_unauth = cc.generate_user_secret_key(&mut b.msk, &p("A::y && H::lo")).unwrap();
    let mpk0 = b.mpk;
    let mut k_old = k_auth.clone();
    let _mpk1 = cc.rekey(&mut b.msk, &p("A::x")).unwrap();
    cc.refresh_usk(&mut b.msk, &mut k_old, true).unwrap();
    type E = Aes256Gcm;
    const KL: usize = Aes256Gcm::KEY_LENGTH;
    let mut cases = 0u64;
    let mut nontrivial = 0u64;
    let mut fail = |run: &mut Run, clause: &str, msg: String| {
        run.report(None, clause, &msg, json!({"engine": "dem", "config": wire::NAME, "case": msg}));
    };
    // ---- well-formed but hollow inputs: an encapsulation without any right-encapsulation (and
    // one without traps), inside a PKE ciphertext and inside a header; on an instance of its own,
    // which must keep working afterwards
    {
        let inst = Covercrypt::default();
        let (xenc, body) = PkeAc::<KL, E>::encrypt(&inst, &mpk0, &p("A::x"), b"plaintext").expect("encrypt");
        let (_, hdr) = EncryptedHeader::generate(&inst, &mpk0, &p("A::x"), Some(b"metadata"), Some(b"a")).expect("header");
        let w = wire::WEnc::decode(&ser(&xenc)).expect("decode");
        let wh = wire::WHeader::decode(&ser(&hdr)).expect("decode header");
        let mut hollow: Vec<(&str, wire::WEnc, wire::WHeader)> = vec![];
        for (what, no_items, no_traps) in [("without right-encapsulations", true, false), ("without traps", false, true), ("without traps and right-encapsulations", true, true)] {
            let mut e = w.clone();
            let mut h = wire::WHeader { enc: wh.enc.clone(), md: wh.md.clone(), fields: vec![] };
            if no_items {
                e.items.clear();
                h.enc.items.clear();
            }
            if no_traps {
                e.traps.clear();
                h.enc.traps.clear();
            }
            hollow.push((what, e, h));
        }
        for (what, e, h) in hollow {
            for (kn, k) in [("authorised", &k_auth), ("unauthorised", &k_unauth)] {
                cases += 2;
                if let Ok(x) = XEnc::deserialize(&e.encode()) {
                    match catch_unwind(AssertUnwindSafe(|| PkeAc::<KL, E>::decrypt(&inst, k, &(x, body.clone())))) {
                        Err(_) => fail(run, "C12.d", format!("PKE ciphertext whose encapsulation is {what}, {kn} key: panic")),
                        Ok(Ok(Some(_))) => fail(run, "C12.e", format!("PKE ciphertext whose encapsulation is {what}, {kn} key: decrypts")),
                        Ok(_) => nontrivial += 1,
                    }
                }
                if let Ok(x) = EncryptedHeader::deserialize(&h.encode()) {
                    match catch_unwind(AssertUnwindSafe(|| x.decrypt(&inst, k, Some(b"a")))) {
                        Err(_) => fail(run, "C12.d", format!("header whose encapsulation is {what}, {kn} key: panic")),
                        Ok(Ok(Some(_))) => fail(run, "C12.e", format!("header whose encapsulation is {what}, {kn} key: decrypts")),
                        Ok(_) => nontrivial += 1,
                    }
                }
            }
        }
        // every truncation of the wire form of a header and of the encapsulation of a ciphertext:
        // an error (or, if some prefix parses, a header nobody decrypts to wrong data), no panic
        let hb = ser(&hdr);
        for n in 0..hb.len() {
            cases += 1;
            match catch_unwind(AssertUnwindSafe(|| EncryptedHeader::deserialize(&hb[..n]).map(|h| h.decrypt(&inst, &k_auth, Some(b"a"))))) {
                Err(_) => fail(run, "C12.d", format!("header truncated to {n} of {} bytes (wire form): panic", hb.len())),
                Ok(Ok(Ok(Some(c)))) if c.metadata.as_deref() != Some(&b"metadata"[..]) => fail(run, "C12.e", format!("header truncated to {n} of {} bytes (wire form): decrypts to other metadata", hb.len())),
                Ok(_) => nontrivial += 1,
            }
        }
        let xb = ser(&xenc);
        for n in 0..xb.len() {
            cases += 1;
            match catch_unwind(AssertUnwindSafe(|| XEnc::deserialize(&xb[..n]).map(|x| PkeAc::<KL, E>::decrypt(&inst, &k_auth, &(x, body.clone()))))) {
                Err(_) => fail(run, "C12.d", format!("encapsulation of a PKE ciphertext truncated to {n} of {} bytes: panic", xb.len())),
                Ok(Ok(Ok(Some(_)))) => fail(run, "C12.e", format!("encapsulation of a PKE ciphertext truncated to {n} of {} bytes: decrypts", xb.len())),
                Ok(_) => nontrivial += 1,
            }
        }
        match catch_unwind(AssertUnwindSafe(|| PkeAc::<KL, E>::decrypt(&inst, &k_auth, &(xenc, body.clone())))) {
            Ok(Ok(Some(ptx))) if &**ptx == b"plaintext" => {}
            _ => fail(run, "C12.a", "after hollow inputs were refused, the same instance no longer decrypts a genuine ciphertext".to_string()),
        }
    }
    // ---- PKE
    // reduced run on the second configuration: the DEM layer does not depend on the curve or the
    // ML-KEM parameters, only a few sizes are replayed there
    let reduced = !thorough && crate::common::is_sub();
    let mut lens: Vec<usize> = if thorough { (0..=48).collect() } else if reduced { vec![0, 1, 16] } else { (0..=20).collect() };
    if !reduced {
        lens.extend([31, 32, 33, 63, 64, 65, 255, 256, 65_535, 65_536, 65_537]);
    }
    if thorough {
        lens.extend([4096, 1 << 20, (1 << 20) + 1]);
    }
    lens.sort_unstable();
    lens.dedup();
    for &n in &lens {
        let ptx: Vec<u8> = (0..n).map(|i| (i * 7 + 1) as u8).collect();
        for pol in ["A::x", "A::x || A::y && H::hi"] {
            let Ok(ct) = PkeAc::<KL, E>::encrypt(cc, &mpk0, &p(pol), &ptx) else {
                fail(run, "C12.a", format!("encrypt({n} bytes, {pol}) failed"));
                continue;
            };
            for (kn, k, want) in [("authorised", &k_auth, true), ("authorised through an older revision", &k_old, true), ("unauthorised", &k_unauth, false)] {
                cases += 1;
                match catch_unwind(AssertUnwindSafe(|| PkeAc::<KL, E>::decrypt(cc, k, &ct))) {
                    Ok(Ok(Some(x))) => {
                        if !want {
                            fail(run, "C12.b", format!("PKE {n} bytes / {pol}: the {kn} key decrypts"));
                        } else if *x != ptx {
                            fail(run, "C12.a", format!("PKE {n} bytes / {pol}: the {kn} key gets a different plaintext"));
                        } else {
                            nontrivial += 1;
                        }
                    }
                    Ok(Ok(None)) => {
                        if want {
                            fail(run, "C12.a", format!("PKE {n} bytes / {pol}: the {kn} key gets 'not authorised'"));
                        } else {
                            nontrivial += 1;
                        }
                    }
                    Ok(Err(e)) => fail(run, if want { "C12.a" } else { "C12.b" }, format!("PKE {n} bytes / {pol}: the {kn} key gets Err({e})")),
                    Err(_) => fail(run, "C12.d", format!("PKE {n} bytes / {pol}: decrypt panicked with the {kn} key")),
                }
            }
            // truncations and alterations
            if pol == "A::x" {
                let body = &ct.1;
                let full = body.len() <= 80;
                let cuts: Vec<usize> = if full { (0..body.len()).collect() } else { (0..=40).chain(body.len() - 17..body.len()).collect() };
                for c in cuts {
                    cases += 1;
                    let m = (ct.0.clone(), body[..c].to_vec());
                    match catch_unwind(AssertUnwindSafe(|| PkeAc::<KL, E>::decrypt(cc, &k_auth, &m))) {
                        Ok(Ok(Some(_))) | Ok(Ok(None)) => fail(run, "C12.d", format!("PKE {n} bytes truncated to {c} of {}: not an error", body.len())),
                        Ok(Err(_)) => nontrivial += 1,
                        Err(_) => fail(run, "C12.d", format!("PKE {n} bytes truncated to {c}: panic")),
                    }
                }
                let positions: Vec<usize> = if full { (0..body.len()).collect() } else { (0..28).chain(body.len() - 32..body.len()).collect() };
                for pos in positions {
                    for bit in 0..8 {
                        cases += 1;
                        let mut mb = body.clone();
                        mb[pos] ^= 1 << bit;
                        let m = (ct.0.clone(), mb);
                        match catch_unwind(AssertUnwindSafe(|| PkeAc::<KL, E>::decrypt(cc, &k_auth, &m))) {
                            Ok(Ok(Some(_))) | Ok(Ok(None)) => fail(run, "C12.d", format!("PKE {n} bytes with bit {bit} of byte {pos} altered: not an error")),
                            Ok(Err(_)) => nontrivial += 1,
                            Err(_) => fail(run, "C12.d", format!("PKE {n} bytes altered: panic")),
                        }
                    }
                }
            }
        }
    }
    // ---- headers
    let mut mds: Vec<Option<Vec<u8>>> = vec![None, Some(vec![])];
    let top = if thorough { 33 } else if reduced { 3 } else { 17 };
    for n in 1..=top {
        mds.push(Some((0..n).map(|i| i as u8 ^ 0x5a).collect()));
    }
    mds.push(Some(vec![3u8; 64]));
    for n in [65_507usize, 65_508, 65_509, 65_535, 65_536, 65_537] {
        if !reduced {
            mds.push(Some(vec![5u8; n]));
        }
    }
    if thorough {
        mds.push(Some(vec![4u8; 1000]));
    }
    // every metadata length over the one- / two- / three-byte boundaries of the length prefix of
    // the encrypted metadata (28 bytes longer than the metadata), through the wire form
    {
        let mut lens: Vec<usize> = (0..=if thorough { 1100 } else if reduced { 130 } else { 300 }).collect();
        if !reduced {
            lens.extend(16_384 - 28 - if thorough { 200 } else { 40 }..=16_384 - 28 + if thorough { 200 } else { 110 });
        }
        if thorough {
            lens.extend(2_097_152 - 28 - 2..=2_097_152 - 28 + 2);
        }
        for n in lens {
            let md: Vec<u8> = (0..n).map(|i| (i % 251) as u8).collect();
            cases += 1;
            let Ok((secret, hdr)) = EncryptedHeader::generate(cc, &mpk0, &p("A::x"), Some(&md), Some(b"a")) else {
                fail(run, "C12.a", format!("EncryptedHeader::generate with {n}-byte metadata failed"));
                continue;
            };
            let b = ser(&hdr);
            match catch_unwind(AssertUnwindSafe(|| EncryptedHeader::deserialize(&b).and_then(|h| h.decrypt(cc, &k_auth, Some(b"a"))))) {
                Ok(Ok(Some(c))) if c.secret.to_vec() == secret.to_vec() && c.metadata.clone().unwrap_or_default() == md => nontrivial += 1,
                Ok(Ok(Some(_))) => fail(run, "C12.a", format!("header with {n}-byte metadata, through its wire form: secret or metadata differ")),
                Ok(Ok(None)) => fail(run, "C12.a", format!("header with {n}-byte metadata, through its wire form: 'not authorised' for the authorised key")),
                Ok(Err(e)) => fail(run, "C12.a", format!("header with {n}-byte metadata, through its wire form: Err({e})")),
                Err(_) => fail(run, "C12.d", format!("header with {n}-byte metadata, through its wire form: panic")),
            }
        }
    }
    let ads: [Option<&[u8]>; 4] = [None, Some(b""), Some(b"a"), Some(&[0x42u8; 32])];
    let same = |a: Option<&[u8]>, b: Option<&[u8]>| a.unwrap_or(&[]) == b.unwrap_or(&[]);
    let mut known_ad = 0u64;
    for md in &mds {
        for ad_gen in ads {
            if md.as_ref().is_some_and(|m| m.len() > 60_000) && ad_gen != Some(&b"a"[..]) {
                continue;
            }
            let Ok((secret, hdr)) = EncryptedHeader::generate(cc, &mpk0, &p("A::x"), md.as_deref(), ad_gen) else {
                fail(run, "C12.a", format!("EncryptedHeader::generate(md {:?}, ad {:?}) failed", md.as_ref().map(Vec::len), ad_gen.map(<[u8]>::len)));
                continue;
            };
            // wire form round-trip is part of the statement (absent == empty)
            let hdr = match EncryptedHeader::deserialize(&ser(&hdr)) {
                Ok(h) => h,
                Err(e) => {
                    fail(run, "C12.a", format!("header md={:?} ad_gen={:?}: its own serialisation is rejected by deserialize ({e})", md.as_ref().map(Vec::len), ad_gen.map(<[u8]>::len)));
                    hdr
                }
            };
            for ad_dec in ads {
                for (kn, k, want) in [("authorised", &k_auth, true), ("authorised through an older revision", &k_old, true), ("unauthorised", &k_unauth, false)] {
                    cases += 1;
                    let desc = format!("header md={:?} ad_gen={:?} ad_dec={:?} key={kn}", md.as_ref().map(Vec::len), ad_gen.map(<[u8]>::len), ad_dec.map(<[u8]>::len));
                    let r = catch_unwind(AssertUnwindSafe(|| hdr.decrypt(cc, k, ad_dec)));
                    match r {
                        Err(_) => fail(run, "C12.d", format!("{desc}: panic")),
                        Ok(Ok(None)) => {
                            if want {
                                fail(run, "C12.a", format!("{desc}: 'not authorised'"));
                            } else {
                                nontrivial += 1;
                            }
                        }
                        Ok(Ok(Some(c))) => {
                            if !want {
                                fail(run, "C12.b", format!("{desc}: decrypts"));
                            } else if !same(ad_gen, ad_dec) {
                                // authentication data whose content differs must be an error
                                let md_absent = md.as_ref().map_or(true, Vec::is_empty) && hdr.encrypted_metadata.is_none();
                                if md_absent {
                                    known_ad += 1;
                                    if known_ad == 1 || run.findings.is_open("C12-ad-unbound-without-metadata").is_none() {
                                        run.report(Some("C12-ad-unbound-without-metadata"), "C12.c", &format!("{desc}: accepted although the authentication data differs"), json!({"engine": "dem", "case": desc}));
                                    }
                                } else {
                                    fail(run, "C12.c", format!("{desc}: accepted although the authentication data differs"));
                                }
                            } else if c.secret.to_vec() != secret.to_vec() {
                                fail(run, "C12.a", format!("{desc}: secret differs from the one generate returned"));
                            } else if c.metadata.clone().unwrap_or_default() != md.clone().unwrap_or_default() {
                                fail(run, "C12.a", format!("{desc}: metadata differs"));
                            } else {
                                nontrivial += 1;
                            }
                        }
                        Ok(Err(e)) => {
                            if want && same(ad_gen, ad_dec) {
                                fail(run, "C12.a", format!("{desc}: Err({e})"));
                            } else if !want {
                                fail(run, "C12.b", format!("{desc}: Err({e}) instead of 'not authorised'"));
                            } else {
                                nontrivial += 1;
                            }
                        }
                    }
                }
            }
            // truncations / alterations of the encrypted metadata
            if let (Some(em), true) = (&hdr.encrypted_metadata, ad_gen.is_none() || ad_gen == Some(b"a")) {
                if em.len() <= 80 {
                    for c in 1..em.len() {
                        cases += 1;
                        let h = EncryptedHeader { encapsulation: hdr.encapsulation.clone(), encrypted_metadata: Some(em[..c].to_vec()) };
                        match catch_unwind(AssertUnwindSafe(|| h.decrypt(cc, &k_auth, ad_gen))) {
                            Ok(Ok(_)) => fail(run, "C12.d", format!("header metadata ({} bytes) truncated to {c}: not an error", em.len())),
                            Ok(Err(_)) => nontrivial += 1,
                            Err(_) => fail(run, "C12.d", format!("header metadata truncated to {c}: panic")),
                        }
                    }
                    for pos in 0..em.len() {
                        for bit in 0..8 {
                            cases += 1;
                            let mut m = em.clone();
                            m[pos] ^= 1 << bit;
                            let h = EncryptedHeader { encapsulation: hdr.encapsulation.clone(), encrypted_metadata: Some(m) };
                            match catch_unwind(AssertUnwindSafe(|| h.decrypt(cc, &k_auth, ad_gen))) {
                                Ok(Ok(_)) => fail(run, "C12.d", format!("header metadata with bit {bit} of byte {pos} altered: not an error")),
                                Ok(Err(_)) => nontrivial += 1,
                                Err(_) => fail(run, "C12.d", "header metadata altered: panic".to_string()),
                            }
                        }
                    }
                }
            }
        }
    }
    run.set("evaluations", json!(cases));
    run.set("distinct_nontrivial", json!(nontrivial));
    run.set("rule", json!("PKE: every plaintext length in the list x 2 policies x {authorised, authorised through an older revision, unauthorised}; for each single-target ciphertext every truncation and every single-bit alteration (<= 80 bytes: all positions; longer: nonce, first block, last 32 bytes). Headers: metadata {absent, empty, 1..17 (thorough 33) bytes, 64, (1000)} x authentication data at generation {absent, empty, 'a', 32 bytes} x at decryption (all 16 pairs) x 3 keys, through the wire form; every truncation and bit of the encrypted metadata (<= 80 bytes). distinct_nontrivial = cases whose outcome was the demanded one"));
    run.set("plaintext_lengths", json!(lens));
    run.set("metadata_variants", json!(mds.len()));
    run.set("headers_without_metadata_accepting_other_ad", json!(known_ad));
    run.set("exhaustive", json!(true));
    run.sample(json!({"pke": {"plaintext_len": 17, "policy": "A::x", "key": "authorised through an older revision"}}));
    run.sample(json!({"header": {"metadata": "empty", "ad_gen": "absent", "ad_dec": "empty", "expected": "same data"}}));
    run.sample(json!({"header": {"metadata": "5 bytes", "ad_gen": "a", "ad_dec": "absent", "expected": "Err"}}));
    if nontrivial == 0 {
        machinery("C12 driver is vacuous");
    }
}

pub fn replay_forge(input_hex: &str) -> i32 {
    println!("forged-key replays need the issuing master key, which lives only inside a run; re-run `bin/check C08 quick` (deterministic classes) - input was {} bytes", input_hex.len() / 2);
    0
}
