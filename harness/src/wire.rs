//! Independent decoder / encoder of the cover_crypt wire format.
//!
//! Written from the documented layouts, never calling the library. It is the
//! harness's window on the implementation's state (`serialize()` of the real
//! objects is decoded here) and the tool with which structurally meaningful
//! mutants are produced.

use std::collections::BTreeMap;
use std::fmt::Write as _;

#[cfg(feature = "cfg-a")]
pub mod sizes {
    pub const POINT: usize = 32;
    pub const SCALAR: usize = 32;
    pub const EK: usize = 800;
    pub const DK: usize = 1632;
    pub const CT: usize = 768;
    pub const NAME: &str = "A(curve25519+mlkem512)";
}
#[cfg(all(feature = "cfg-b", not(feature = "cfg-a")))]
pub mod sizes {
    pub const POINT: usize = 33;
    pub const SCALAR: usize = 32;
    pub const EK: usize = 1184;
    pub const DK: usize = 2400;
    pub const CT: usize = 1088;
    pub const NAME: &str = "B(p256+mlkem768)";
}
pub use sizes::*;

pub const TAG: usize = 16;
pub const SEED: usize = 32;
pub const SIGKEY: usize = 16;
pub const SIG: usize = 32;

pub type R<T> = Result<T, String>;

/// A located field of a serialisation (for the tamper engines).
#[derive(Clone, Debug, PartialEq, Eq)]
pub struct Field {
    pub kind: &'static str,
    pub off: usize,
    pub len: usize,
    /// value for LEB128 fields
    pub val: u64,
    pub leb: bool,
}

pub struct Rd<'a> {
    pub b: &'a [u8],
    pub p: usize,
    pub fields: Vec<Field>,
}

impl<'a> Rd<'a> {
    pub fn new(b: &'a [u8]) -> Self {
        Self { b, p: 0, fields: vec![] }
    }
    pub fn rest(&self) -> usize {
        self.b.len() - self.p
    }
    pub fn leb(&mut self, kind: &'static str) -> R<u64> {
        let start = self.p;
        let mut v: u64 = 0;
        let mut shift = 0u32;
        loop {
            let byte = *self.b.get(self.p).ok_or_else(|| format!("eof in leb {kind} at {start}"))?;
            self.p += 1;
            if shift >= 64 || (shift == 63 && (byte & 0x7e) != 0) {
                return Err(format!("leb overflow {kind} at {start}"));
            }
            v |= u64::from(byte & 0x7f) << shift;
            shift += 7;
            if byte & 0x80 == 0 {
                break;
            }
        }
        self.fields.push(Field { kind, off: start, len: self.p - start, val: v, leb: true });
        Ok(v)
    }
    pub fn bytes(&mut self, kind: &'static str, n: usize) -> R<Vec<u8>> {
        if self.rest() < n {
            return Err(format!("eof reading {n} bytes of {kind} at {}", self.p));
        }
        let v = self.b[self.p..self.p + n].to_vec();
        self.fields.push(Field { kind, off: self.p, len: n, val: 0, leb: false });
        self.p += n;
        Ok(v)
    }
    pub fn vec(&mut self, kind_len: &'static str, kind: &'static str) -> R<Vec<u8>> {
        let n = self.leb(kind_len)? as usize;
        self.bytes(kind, n)
    }
    pub fn end(&self) -> R<()> {
        if self.rest() == 0 {
            Ok(())
        } else {
            Err(format!("{} trailing bytes", self.rest()))
        }
    }
}

pub fn leb_enc(mut v: u64, out: &mut Vec<u8>) {
    loop {
        let mut b = (v & 0x7f) as u8;
        v >>= 7;
        if v != 0 {
            b |= 0x80;
        }
        out.push(b);
        if v == 0 {
            break;
        }
    }
}

/// Over-long (non-canonical) LEB128 of `v` using exactly `n` bytes (n <= 10 is decodable).
pub fn leb_enc_padded(v: u64, n: usize, out: &mut Vec<u8>) {
    let mut v = v;
    for i in 0..n {
        let mut b = (v & 0x7f) as u8;
        v >>= 7;
        if i + 1 < n {
            b |= 0x80;
        }
        out.push(b);
    }
}

pub fn put_vec(v: &[u8], out: &mut Vec<u8>) {
    leb_enc(v.len() as u64, out);
    out.extend_from_slice(v);
}

pub fn hex(b: &[u8]) -> String {
    let mut s = String::with_capacity(b.len() * 2);
    for x in b {
        let _ = write!(s, "{x:02x}");
    }
    s
}

pub fn unhex(s: &str) -> R<Vec<u8>> {
    if s.len() % 2 != 0 {
        return Err("odd hex".into());
    }
    (0..s.len() / 2)
        .map(|i| u8::from_str_radix(&s[2 * i..2 * i + 2], 16).map_err(|e| e.to_string()))
        .collect()
}

/// Decodes a right (LEB128 list of sorted attribute ids).
pub fn right_ids(r: &[u8]) -> R<Vec<u64>> {
    let mut rd = Rd::new(r);
    let mut v = vec![];
    while rd.rest() > 0 {
        v.push(rd.leb("id")?);
    }
    Ok(v)
}

pub fn ids_right(ids: &[u64]) -> Vec<u8> {
    let mut s = ids.to_vec();
    s.sort_unstable();
    let mut out = vec![];
    for i in s {
        leb_enc(i, &mut out);
    }
    out
}

// ---------------------------------------------------------------------------
// Access structure

#[derive(Clone, Debug, PartialEq, Eq, PartialOrd, Ord)]
pub struct WAttr {
    pub name: String,
    pub id: u64,
    pub hybrid: bool,
    /// true = EncryptDecrypt
    pub enabled: bool,
}

#[derive(Clone, Debug, PartialEq, Eq)]
pub struct WDim {
    pub ordered: bool,
    /// wire order (rank order, lowest first, for a hierarchy)
    pub attrs: Vec<WAttr>,
}

#[derive(Clone, Debug, PartialEq, Eq, Default)]
pub struct WStructure {
    pub dims: BTreeMap<String, WDim>,
}

pub fn read_structure(rd: &mut Rd) -> R<WStructure> {
    let version = rd.leb("structure.version")?;
    if version != 0 {
        return Err(format!("structure version {version}"));
    }
    let nd = rd.leb("structure.ndims")?;
    let mut dims = BTreeMap::new();
    for _ in 0..nd {
        let name = String::from_utf8(rd.vec("dim.name_len", "dim.name")?).map_err(|e| e.to_string())?;
        let ordered = match rd.leb("dim.ordered")? {
            0 => false,
            1 => true,
            x => return Err(format!("dim.ordered {x}")),
        };
        let na = rd.leb("dim.nattrs")?;
        let mut attrs = vec![];
        for _ in 0..na {
            let aname = String::from_utf8(rd.vec("attr.name_len", "attr.name")?).map_err(|e| e.to_string())?;
            let id = rd.leb("attr.id")?;
            let hybrid = match rd.leb("attr.hint")? {
                0 => false,
                1 => true,
                x => return Err(format!("attr.hint {x}")),
            };
            let enabled = match rd.leb("attr.status")? {
                0 => false,
                1 => true,
                x => return Err(format!("attr.status {x}")),
            };
            attrs.push(WAttr { name: aname, id, hybrid, enabled });
        }
        if !ordered {
            attrs.sort();
        }
        if dims.insert(name.clone(), WDim { ordered, attrs }).is_some() {
            return Err(format!("duplicate dimension {name}"));
        }
    }
    Ok(WStructure { dims })
}

impl WStructure {
    pub fn decode(b: &[u8]) -> R<Self> {
        let mut rd = Rd::new(b);
        let s = read_structure(&mut rd)?;
        rd.end()?;
        Ok(s)
    }
    pub fn encode(&self, out: &mut Vec<u8>) {
        out.push(0);
        leb_enc(self.dims.len() as u64, out);
        for (n, d) in &self.dims {
            put_vec(n.as_bytes(), out);
            out.push(u8::from(d.ordered));
            leb_enc(d.attrs.len() as u64, out);
            for a in &d.attrs {
                put_vec(a.name.as_bytes(), out);
                leb_enc(a.id, out);
                out.push(u8::from(a.hybrid));
                out.push(u8::from(a.enabled));
            }
        }
    }
    pub fn find(&self, dim: &str, name: &str) -> Option<&WAttr> {
        self.dims.get(dim)?.attrs.iter().find(|a| a.name == name)
    }
    pub fn all_ids(&self) -> Vec<u64> {
        self.dims.values().flat_map(|d| d.attrs.iter().map(|a| a.id)).collect()
    }
    pub fn canon(&self) -> String {
        let mut s = String::new();
        for (n, d) in &self.dims {
            let _ = write!(s, "{n}{}[", if d.ordered { "<" } else { "~" });
            for a in &d.attrs {
                let _ = write!(s, "{}#{}{}{} ", a.name, a.id, if a.hybrid { "h" } else { "c" }, if a.enabled { "" } else { "!" });
            }
            s.push(']');
        }
        s
    }
}

// ---------------------------------------------------------------------------
// Right secret / public keys

#[derive(Clone, Debug, PartialEq, Eq, PartialOrd, Ord)]
pub struct WRsk {
    pub sk: Vec<u8>,
    pub dk: Option<Vec<u8>>,
}

pub fn read_rsk(rd: &mut Rd) -> R<WRsk> {
    let flag = rd.leb("rsk.flag")?;
    let sk = rd.bytes("rsk.sk", SCALAR)?;
    match flag {
        0 => Ok(WRsk { sk, dk: None }),
        1 => Ok(WRsk { sk, dk: Some(rd.bytes("rsk.dk", DK)?) }),
        x => Err(format!("rsk.flag {x}")),
    }
}

impl WRsk {
    pub fn write(&self, out: &mut Vec<u8>) {
        match &self.dk {
            None => {
                out.push(0);
                out.extend_from_slice(&self.sk);
            }
            Some(dk) => {
                out.push(1);
                out.extend_from_slice(&self.sk);
                out.extend_from_slice(dk);
            }
        }
    }
    pub fn hybrid(&self) -> bool {
        self.dk.is_some()
    }
}

#[derive(Clone, Debug, PartialEq, Eq)]
pub struct WRpk {
    pub h: Vec<u8>,
    pub ek: Option<Vec<u8>>,
}

// ---------------------------------------------------------------------------
// Master secret key

#[derive(Clone, Debug, PartialEq, Eq)]
pub struct WMsk {
    pub s: Vec<u8>,
    /// (tracer scalar, tracer point)
    pub tracers: Vec<(Vec<u8>, Vec<u8>)>,
    /// sorted
    pub users: Vec<Vec<Vec<u8>>>,
    /// right bytes -> newest-first chain of (activated, key)
    pub rights: BTreeMap<Vec<u8>, Vec<(bool, WRsk)>>,
    pub signing_key: Option<Vec<u8>>,
    pub structure: WStructure,
    pub fields: Vec<Field>,
}

pub fn read_user_id(rd: &mut Rd) -> R<Vec<Vec<u8>>> {
    let n = rd.leb("id.n")?;
    let mut v = vec![];
    for _ in 0..n {
        v.push(rd.bytes("id.marker", SCALAR)?);
    }
    Ok(v)
}

impl WMsk {
    pub fn decode(b: &[u8]) -> R<Self> {
        let mut rd = Rd::new(b);
        let s = rd.bytes("tsk.s", SCALAR)?;
        let nt = rd.leb("tsk.ntracers")?;
        let mut tracers = vec![];
        for _ in 0..nt {
            let t = rd.bytes("tsk.tracer.sk", SCALAR)?;
            let p = rd.bytes("tsk.tracer.pk", POINT)?;
            tracers.push((t, p));
        }
        let nu = rd.leb("tsk.nusers")?;
        let mut users = vec![];
        for _ in 0..nu {
            users.push(read_user_id(&mut rd)?);
        }
        users.sort();
        let nr = rd.leb("msk.nrights")?;
        let mut rights = BTreeMap::new();
        for _ in 0..nr {
            let name = rd.vec("right.len", "right.name")?;
            let nk = rd.leb("chain.n")?;
            let mut chain = vec![];
            for _ in 0..nk {
                let act = match rd.leb("chain.activated")? {
                    0 => false,
                    1 => true,
                    x => return Err(format!("activation flag {x}")),
                };
                chain.push((act, read_rsk(&mut rd)?));
            }
            if rights.insert(name, chain).is_some() {
                return Err("duplicate right in msk".into());
            }
        }
        // The reader takes a signing key whenever >= 16 bytes remain.
        let signing_key = if rd.rest() >= SIGKEY { Some(rd.bytes("msk.signing_key", SIGKEY)?) } else { None };
        let structure = read_structure(&mut rd)?;
        rd.end()?;
        Ok(Self { s, tracers, users, rights, signing_key, structure, fields: rd.fields })
    }
}

impl WMsk {
    pub fn encode(&self) -> Vec<u8> {
        let mut out = vec![];
        out.extend_from_slice(&self.s);
        leb_enc(self.tracers.len() as u64, &mut out);
        for (t, p) in &self.tracers {
            out.extend_from_slice(t);
            out.extend_from_slice(p);
        }
        leb_enc(self.users.len() as u64, &mut out);
        for id in &self.users {
            leb_enc(id.len() as u64, &mut out);
            for m in id {
                out.extend_from_slice(m);
            }
        }
        leb_enc(self.rights.len() as u64, &mut out);
        for (r, chain) in &self.rights {
            put_vec(r, &mut out);
            leb_enc(chain.len() as u64, &mut out);
            for (a, k) in chain {
                out.push(u8::from(*a));
                k.write(&mut out);
            }
        }
        if let Some(k) = &self.signing_key {
            out.extend_from_slice(k);
        }
        self.structure.encode(&mut out);
        out
    }
}

// ---------------------------------------------------------------------------
// Master public key

#[derive(Clone, Debug, PartialEq, Eq)]
pub struct WMpk {
    pub tpk: Vec<Vec<u8>>,
    pub keys: BTreeMap<Vec<u8>, WRpk>,
    pub structure: WStructure,
    pub fields: Vec<Field>,
}

impl WMpk {
    pub fn decode(b: &[u8]) -> R<Self> {
        let mut rd = Rd::new(b);
        let n = rd.leb("tpk.n")?;
        let mut tpk = vec![];
        for _ in 0..n {
            tpk.push(rd.bytes("tpk.point", POINT)?);
        }
        let nk = rd.leb("mpk.nkeys")?;
        let mut keys = BTreeMap::new();
        for _ in 0..nk {
            let name = rd.vec("right.len", "right.name")?;
            let flag = rd.leb("rpk.flag")?;
            let h = rd.bytes("rpk.H", POINT)?;
            let ek = match flag {
                0 => None,
                1 => Some(rd.bytes("rpk.ek", EK)?),
                x => return Err(format!("rpk.flag {x}")),
            };
            if keys.insert(name, WRpk { h, ek }).is_some() {
                return Err("duplicate right in mpk".into());
            }
        }
        let structure = read_structure(&mut rd)?;
        rd.end()?;
        Ok(Self { tpk, keys, structure, fields: rd.fields })
    }
}

impl WMpk {
    pub fn encode(&self) -> Vec<u8> {
        let mut out = vec![];
        leb_enc(self.tpk.len() as u64, &mut out);
        for p in &self.tpk {
            out.extend_from_slice(p);
        }
        leb_enc(self.keys.len() as u64, &mut out);
        for (r, k) in &self.keys {
            put_vec(r, &mut out);
            out.push(u8::from(k.ek.is_some()));
            out.extend_from_slice(&k.h);
            if let Some(ek) = &k.ek {
                out.extend_from_slice(ek);
            }
        }
        self.structure.encode(&mut out);
        out
    }
}

// ---------------------------------------------------------------------------
// User secret key

#[derive(Clone, Debug, PartialEq, Eq)]
pub struct WUsk {
    pub id: Vec<Vec<u8>>,
    pub ps: Vec<Vec<u8>>,
    /// wire order
    pub chains: Vec<(Vec<u8>, Vec<WRsk>)>,
    pub sig: Option<Vec<u8>>,
    pub fields: Vec<Field>,
}

impl WUsk {
    pub fn decode(b: &[u8]) -> R<Self> {
        let mut rd = Rd::new(b);
        let id = read_user_id(&mut rd)?;
        let np = rd.leb("usk.nps")?;
        let mut ps = vec![];
        for _ in 0..np {
            ps.push(rd.bytes("usk.p", POINT)?);
        }
        let nc = rd.leb("usk.nchains")?;
        let mut chains = vec![];
        for _ in 0..nc {
            let name = rd.vec("right.len", "right.name")?;
            let nk = rd.leb("chain.n")?;
            let mut chain = vec![];
            for _ in 0..nk {
                chain.push(read_rsk(&mut rd)?);
            }
            chains.push((name, chain));
        }
        let sig = if rd.rest() >= SIG { Some(rd.bytes("usk.sig", SIG)?) } else { None };
        rd.end()?;
        Ok(Self { id, ps, chains, sig, fields: rd.fields })
    }

    pub fn encode(&self) -> Vec<u8> {
        let mut out = vec![];
        leb_enc(self.id.len() as u64, &mut out);
        for m in &self.id {
            out.extend_from_slice(m);
        }
        leb_enc(self.ps.len() as u64, &mut out);
        for p in &self.ps {
            out.extend_from_slice(p);
        }
        leb_enc(self.chains.len() as u64, &mut out);
        for (name, chain) in &self.chains {
            put_vec(name, &mut out);
            leb_enc(chain.len() as u64, &mut out);
            for k in chain {
                k.write(&mut out);
            }
        }
        if let Some(s) = &self.sig {
            out.extend_from_slice(s);
        }
        out
    }

    /// Canonical (order-insensitive) view of the chains.
    pub fn sorted_chains(&self) -> BTreeMap<Vec<u8>, Vec<WRsk>> {
        self.chains.iter().cloned().collect()
    }

    /// The byte stream that the signature covers when nothing frames it:
    /// markers, then for every chain the right name followed by its secrets.
    pub fn mac_stream(&self) -> Vec<u8> {
        let mut out = vec![];
        for m in &self.id {
            out.extend_from_slice(m);
        }
        for (name, chain) in &self.chains {
            out.extend_from_slice(name);
            for k in chain {
                out.extend_from_slice(&k.sk);
                if let Some(dk) = &k.dk {
                    out.extend_from_slice(dk);
                }
            }
        }
        out
    }
}

// ---------------------------------------------------------------------------
// Encapsulation, headers

#[derive(Clone, Debug, PartialEq, Eq)]
pub struct WEnc {
    pub tag: Vec<u8>,
    pub traps: Vec<Vec<u8>>,
    pub hybrid: bool,
    /// (ML-KEM ciphertext if hybrid, masked seed)
    pub items: Vec<(Option<Vec<u8>>, Vec<u8>)>,
    pub fields: Vec<Field>,
}

pub fn read_enc(rd: &mut Rd) -> R<WEnc> {
    let tag = rd.bytes("enc.tag", TAG)?;
    let n = rd.leb("enc.ntraps")?;
    let mut traps = vec![];
    for _ in 0..n {
        traps.push(rd.bytes("enc.trap", POINT)?);
    }
    let hybrid = match rd.leb("enc.flavour")? {
        0 => false,
        1 => true,
        x => return Err(format!("enc.flavour {x}")),
    };
    let ni = rd.leb("enc.nitems")?;
    let mut items = vec![];
    for _ in 0..ni {
        let e = if hybrid { Some(rd.bytes("enc.E", CT)?) } else { None };
        let f = rd.bytes("enc.F", SEED)?;
        items.push((e, f));
    }
    Ok(WEnc { tag, traps, hybrid, items, fields: vec![] })
}

impl WEnc {
    pub fn decode(b: &[u8]) -> R<Self> {
        let mut rd = Rd::new(b);
        let mut e = read_enc(&mut rd)?;
        rd.end()?;
        e.fields = rd.fields;
        Ok(e)
    }
    pub fn encode(&self) -> Vec<u8> {
        let mut out = vec![];
        out.extend_from_slice(&self.tag);
        leb_enc(self.traps.len() as u64, &mut out);
        for t in &self.traps {
            out.extend_from_slice(t);
        }
        out.push(u8::from(self.hybrid));
        leb_enc(self.items.len() as u64, &mut out);
        for (e, f) in &self.items {
            if self.hybrid {
                if let Some(e) = e {
                    out.extend_from_slice(e);
                }
            }
            out.extend_from_slice(f);
        }
        out
    }
}

#[derive(Clone, Debug, PartialEq, Eq)]
pub struct WHeader {
    pub enc: WEnc,
    /// nonce || ciphertext || tag, empty when absent
    pub md: Vec<u8>,
    pub fields: Vec<Field>,
}

impl WHeader {
    pub fn decode(b: &[u8]) -> R<Self> {
        let mut rd = Rd::new(b);
        let enc = read_enc(&mut rd)?;
        let md = rd.vec("hdr.md_len", "hdr.md")?;
        rd.end()?;
        Ok(Self { enc, md, fields: rd.fields })
    }
    pub fn encode(&self) -> Vec<u8> {
        let mut out = self.enc.encode();
        put_vec(&self.md, &mut out);
        out
    }
}

#[derive(Clone, Debug, PartialEq, Eq)]
pub struct WClear {
    pub secret: Vec<u8>,
    pub md: Vec<u8>,
}

impl WClear {
    pub fn decode(b: &[u8]) -> R<Self> {
        let mut rd = Rd::new(b);
        let secret = rd.bytes("clear.secret", SEED)?;
        let md = rd.vec("clear.md_len", "clear.md")?;
        rd.end()?;
        Ok(Self { secret, md })
    }
}

/// All located fields of a serialisation of the given type ("msk", "mpk", "usk", "enc", "hdr", "struct").
pub fn fields_of(ty: &str, b: &[u8]) -> R<Vec<Field>> {
    Ok(match ty {
        "msk" => WMsk::decode(b)?.fields,
        "mpk" => WMpk::decode(b)?.fields,
        "usk" => WUsk::decode(b)?.fields,
        "enc" => WEnc::decode(b)?.fields,
        "hdr" => WHeader::decode(b)?.fields,
        "struct" => {
            let mut rd = Rd::new(b);
            read_structure(&mut rd)?;
            rd.end()?;
            rd.fields
        }
        _ => return Err(format!("unknown type {ty}")),
    })
}
