//! C16: every secret, nonce and identifier is fresh - the structural part: every call draws
//! new randomness from the one advancing generator, in every call order, on every instance.
//! Exhaustive call sequences up to a depth bound + one long path; the cross-thread half is
//! decided by sched.rs.

use std::collections::{BTreeMap, HashMap};

use serde_json::json;

use cosmian_cover_crypt::{
    api::Covercrypt,
    traits::{KemAc, PkeAc},
    AccessPolicy, EncryptedHeader, MasterSecretKey,
};
use cosmian_crypto_core::{bytes_ser_de::Serializable, Aes256Gcm, Dem, FixedSizeCBytes, Instantiable, Nonce, SymmetricKey};

use crate::common::{hash128, machinery, par_map, Run};
use crate::ftamper::w1;
use crate::wire::{self, WEnc, WHeader, WMpk, WMsk, WUsk};
use crate::world::ser;

type E = Aes256Gcm;
const KL: usize = Aes256Gcm::KEY_LENGTH;

#[derive(Clone, Copy, Debug, PartialEq, Eq)]
pub enum Kind {
    Encaps,
    Encrypt,
    Header,
    /// header with present-but-empty metadata (still an AEAD encryption: nonce + tag)
    HeaderEmpty,
    Keygen,
    Rekey,
    Setup,
    /// re-encapsulation of one fixed, long-lived encapsulation under the current public key
    Recaps,
}

#[derive(Clone, Copy, Debug)]
pub struct Sym {
    pub kind: Kind,
    pub inst: usize,
}

pub fn alphabet() -> Vec<Sym> {
    let mut v = vec![];
    for kind in [Kind::Encaps, Kind::Encrypt, Kind::Header, Kind::HeaderEmpty, Kind::Keygen, Kind::Rekey, Kind::Setup, Kind::Recaps] {
        for inst in 0..2 {
            v.push(Sym { kind, inst });
        }
    }
    v
}

/// (kind, value) pairs that must be globally unique.
type Fields = Vec<(&'static str, Vec<u8>)>;

fn enc_fields(bytes: &[u8], f: &mut Fields) {
    if let Ok(w) = WEnc::decode(bytes) {
        f.push(("tag", w.tag.clone()));
        for t in &w.traps {
            f.push(("trap", t.clone()));
        }
        for (e, m) in &w.items {
            f.push(("masked seed", m.clone()));
            if let Some(e) = e {
                f.push(("ML-KEM ciphertext", e.clone()));
            }
        }
    }
}

pub struct Ctx {
    pub cc: [Covercrypt; 2],
    pub msk: MasterSecretKey,
    pub mpk_bytes: Vec<u8>,
    /// right -> published H, as last seen
    pub published: BTreeMap<Vec<u8>, Vec<u8>>,
    /// the long-lived encapsulation every `Recaps` call re-encapsulates (same for all sequences)
    pub orig: Vec<u8>,
}

const PTX: &[u8] = b"identical plaintext";

/// Executes one call; returns its freshness-bearing fields or a failure.
pub fn step(c: &mut Ctx, s: Sym) -> Result<Fields, (String, String)> {
    let p = |t: &str| AccessPolicy::parse(t).unwrap();
    let mpk = cosmian_cover_crypt::MasterPublicKey::deserialize(&c.mpk_bytes).map_err(|e| ("C16.x".to_string(), format!("mpk: {e}")))?;
    let cc = &c.cc[s.inst];
    let mut f: Fields = vec![];
    match s.kind {
        Kind::Encaps => {
            let (secret, enc) = cc.encaps(&mpk, &p("A::x || H::hi")).map_err(|e| ("C16.x".to_string(), format!("encaps: {e}")))?;
            f.push(("secret", secret.to_vec()));
            enc_fields(&ser(&enc), &mut f);
        }
        Kind::Encrypt => {
            let (enc, body) = PkeAc::<KL, E>::encrypt(cc, &mpk, &p("A::x"), PTX).map_err(|e| ("C16.x".to_string(), format!("encrypt: {e}")))?;
            enc_fields(&ser(&enc), &mut f);
            f.push(("AEAD nonce", body[..12].to_vec()));
        }
        Kind::Header => {
            let (secret, hdr) = EncryptedHeader::generate(cc, &mpk, &p("A::x"), Some(b"metadata"), Some(b"ad")).map_err(|e| ("C16.x".to_string(), format!("header: {e}")))?;
            f.push(("secret", secret.to_vec()));
            let w = WHeader::decode(&ser(&hdr)).map_err(|e| ("C13.w".to_string(), e))?;
            enc_fields(&w.enc.encode(), &mut f);
            f.push(("AEAD nonce", w.md[..12].to_vec()));
            // C16.e: the metadata key is not the returned secret
            let key = SymmetricKey::<KL>::try_from_bytes(secret.to_vec().try_into().unwrap()).map_err(|e| ("C16.x".to_string(), e.to_string()))?;
            let nonce = Nonce::try_from_slice(&w.md[..12]).map_err(|e| ("C16.x".to_string(), e.to_string()))?;
            if Aes256Gcm::new(&key).decrypt(&nonce, &w.md[12..], Some(b"ad")).is_ok() {
                return Err(("C16.e".into(), "the encrypted metadata decrypts under the secret handed to the caller".into()));
            }
        }
        Kind::HeaderEmpty => {
            let (secret, hdr) = EncryptedHeader::generate(cc, &mpk, &p("A::x"), Some(b""), None).map_err(|e| ("C16.x".to_string(), format!("header: {e}")))?;
            f.push(("secret", secret.to_vec()));
            let w = WHeader::decode(&ser(&hdr)).map_err(|e| ("C13.w".to_string(), e))?;
            enc_fields(&w.enc.encode(), &mut f);
            if w.md.len() >= 12 {
                f.push(("AEAD nonce", w.md[..12].to_vec()));
            }
        }
        Kind::Keygen => {
            let usk = cc.generate_user_secret_key(&mut c.msk, &p("A::x")).map_err(|e| ("C16.x".to_string(), format!("keygen: {e}")))?;
            let w = WUsk::decode(&ser(&usk)).map_err(|e| ("C13.w".to_string(), e))?;
            f.push(("user id", w.id.concat()));
            for m in &w.id[..w.id.len() - 1] {
                f.push(("marker", m.clone()));
            }
            let m = WMsk::decode(&ser(&c.msk)).map_err(|e| ("C13.w".to_string(), e))?;
            if m.users.windows(2).any(|p| p[0] == p[1]) {
                return Err(("C16.c".into(), "the master key lists one user id twice".into()));
            }
        }
        Kind::Rekey => {
            let new = cc.rekey(&mut c.msk, &p("*")).map_err(|e| ("C16.x".to_string(), format!("rekey: {e}")))?;
            c.mpk_bytes = ser(&new);
            let w = WMpk::decode(&c.mpk_bytes).map_err(|e| ("C13.w".to_string(), e))?;
            for (r, k) in &w.keys {
                if c.published.get(r) == Some(&k.h) {
                    return Err(("C16.d".into(), format!("rekey * left the published value of right {} unchanged", wire::hex(r))));
                }
                f.push(("published H", k.h.clone()));
                if let Some(ek) = &k.ek {
                    f.push(("published ek", ek.clone()));
                }
                c.published.insert(r.clone(), k.h.clone());
            }
        }
        Kind::Recaps => {
            let orig = cosmian_cover_crypt::XEnc::deserialize(&c.orig).map_err(|e| ("C16.x".to_string(), format!("original: {e}")))?;
            let (secret, enc) = cc.recaps(&c.msk, &mpk, &orig).map_err(|e| ("C16.x".to_string(), format!("recaps: {e}")))?;
            f.push(("secret", secret.to_vec()));
            enc_fields(&ser(&enc), &mut f);
        }
        Kind::Setup => {
            let (msk, mpk) = cc.setup().map_err(|e| ("C16.x".to_string(), format!("setup: {e}")))?;
            let w = WMpk::decode(&ser(&mpk)).map_err(|e| ("C13.w".to_string(), e))?;
            for t in &w.tpk {
                f.push(("tracing point", t.clone()));
            }
            for k in w.keys.values() {
                f.push(("published H", k.h.clone()));
            }
            let m = WMsk::decode(&ser(&msk)).map_err(|e| ("C13.w".to_string(), e))?;
            f.push(("master scalar", m.s.clone()));
            if let Some(k) = &m.signing_key {
                f.push(("signing key", k.clone()));
            }
        }
    }
    Ok(f)
}

pub fn fresh_ctx(base_msk: &[u8], base_mpk: &[u8]) -> Ctx {
    let msk = MasterSecretKey::deserialize(base_msk).expect("base msk");
    let mut published = BTreeMap::new();
    if let Ok(w) = WMpk::decode(base_mpk) {
        for (r, k) in &w.keys {
            published.insert(r.clone(), k.h.clone());
        }
    }
    static ORIG: std::sync::OnceLock<(Vec<u8>, Vec<u8>)> = std::sync::OnceLock::new();
    let (for_mpk, orig) = ORIG.get_or_init(|| {
        let mpk = cosmian_cover_crypt::MasterPublicKey::deserialize(base_mpk).expect("base mpk");
        let (_, enc) = Covercrypt::default().encaps(&mpk, &AccessPolicy::parse("A::x || H::hi").unwrap()).expect("original encapsulation");
        (base_mpk.to_vec(), ser(&enc))
    });
    assert!(for_mpk == base_mpk, "one base per process");
    Ctx { cc: [Covercrypt::default(), Covercrypt::default()], msk, mpk_bytes: base_mpk.to_vec(), published, orig: orig.clone() }
}

/// Runs one sequence; returns the hashes of its fields (kind-tagged) or a failure.
fn run_sequence(base_msk: &[u8], base_mpk: &[u8], seq: &[Sym]) -> Result<Vec<(u128, &'static str)>, (String, String)> {
    let mut c = fresh_ctx(base_msk, base_mpk);
    let mut seen: HashMap<(&'static str, Vec<u8>), usize> = HashMap::new();
    let mut out = vec![];
    for (i, s) in seq.iter().enumerate() {
        let f = step(&mut c, *s)?;
        for (k, v) in f {
            if let Some(j) = seen.insert((k, v.clone()), i) {
                let clause = match k {
                    "AEAD nonce" => "C16.b",
                    "user id" | "marker" => "C16.c",
                    "published H" | "published ek" => "C16.d",
                    _ => "C16.a",
                };
                return Err((clause.into(), format!("calls #{j} and #{i} of the sequence produced the same {k}")));
            }
            let mut tagged = k.as_bytes().to_vec();
            tagged.extend_from_slice(&v);
            out.push((hash128(&tagged), k));
        }
    }
    Ok(out)
}

fn decode_seq(mut code: usize, len: usize, alpha: &[Sym]) -> Vec<Sym> {
    let mut v = vec![];
    for _ in 0..len {
        v.push(alpha[code % alpha.len()]);
        code /= alpha.len();
    }
    v
}

pub fn check(prop: &str, tier: &str) -> i32 {
    let thorough = tier == "thorough";
    let mut run = Run::new(prop, tier, "exploration");
    // across threads: every interleaving of small concurrent scenarios on one shared instance
    // (first, while this process is small and single-threaded: executions are forked)
    // (the reduced run on the second configuration skips it: scheduling does not depend on the
    // curve or the ML-KEM parameter set)
    let reduced = !thorough && crate::common::is_sub();
    if !reduced {
        crate::sched::freshness_part(&mut run);
    }
    let b = w1();
    let base_msk = ser(&b.msk);
    let base_mpk = ser(&b.mpk);
    let alpha = alphabet();
    let depth = if thorough { 5 } else if reduced { 2 } else { 4 };
    let mut jobs: Vec<(usize, usize)> = vec![];
    for len in 1..=depth {
        for code in 0..alpha.len().pow(len as u32) {
            jobs.push((len, code));
        }
    }
    let results = par_map(&jobs, |_, (len, code)| run_sequence(&base_msk, &base_mpk, &decode_seq(*code, *len, &alpha)));
    let mut global: HashMap<u128, usize> = HashMap::new();
    let mut fields = 0u64;
    let mut reported = 0;
    let mut kinds: BTreeMap<&'static str, u64> = BTreeMap::new();
    for (ji, r) in results.iter().enumerate() {
        let desc = || decode_seq(jobs[ji].1, jobs[ji].0, &alpha).iter().map(|s| format!("{:?}@{}", s.kind, s.inst + 1)).collect::<Vec<_>>().join("; ");
        match r {
            Err((c, m)) => {
                if c.starts_with("C16") && reported < 6 {
                    reported += 1;
                    run.report(None, c, &format!("sequence [{}]: {m}", desc()), json!({"engine": "seqfresh", "config": wire::NAME, "sequence": desc()}));
                } else if !c.starts_with("C16") {
                    machinery(&format!("sequence [{}] could not run: {c} {m}", desc()));
                }
            }
            Ok(hs) => {
                for (h, k) in hs {
                    fields += 1;
                    *kinds.entry(k).or_insert(0) += 1;
                    if let Some(prev) = global.insert(*h, ji) {
                        if reported < 6 {
                            reported += 1;
                            let other = decode_seq(jobs[prev].1, jobs[prev].0, &alpha).iter().map(|s| format!("{:?}@{}", s.kind, s.inst + 1)).collect::<Vec<_>>().join("; ");
                            run.report(None, "C16.a", &format!("sequences [{}] and [{other}] (fresh instances each) produced the same {k}", desc()), json!({"engine": "seqfresh", "sequence": desc()}));
                        }
                    }
                }
            }
        }
    }
    // one long deterministic path on a single instance pair
    let (n_enc, n_ctx, n_key, n_rekey) = if thorough { (70_000, 70_000, 2_000, 300) } else if reduced { (300, 300, 60, 6) } else { (3_000, 5_000, 400, 30) };
    let mut c = fresh_ctx(&base_msk, &base_mpk);
    let mut long_fields = 0u64;
    let mut seen: HashMap<u128, u32> = HashMap::new();
    let plan = [(Kind::Encaps, n_enc), (Kind::Encrypt, n_ctx), (Kind::Keygen, n_key), (Kind::Rekey, n_rekey), (Kind::Header, n_rekey), (Kind::HeaderEmpty, n_rekey), (Kind::Encaps, n_rekey), (Kind::Recaps, n_rekey)];
    let mut call_no = 0u32;
    let mut ad_cases = 0u64;
    'outer: for (kind, n) in plan {
        for i in 0..n {
            call_no += 1;
            match step(&mut c, Sym { kind, inst: i % 2 }) {
                Err((cl, m)) => {
                    if cl.starts_with("C16") {
                        run.report(None, &cl, &format!("long path, call #{call_no} ({kind:?}): {m}"), json!({"engine": "seqfresh-long", "call": call_no}));
                    } else {
                        machinery(&format!("long path could not run: {cl} {m}"));
                    }
                    break 'outer;
                }
                Ok(f) => {
                    for (k, v) in f {
                        long_fields += 1;
                        let mut tagged = k.as_bytes().to_vec();
                        tagged.extend_from_slice(&v);
                        if let Some(prev) = seen.insert(hash128(&tagged), call_no) {
                            run.report(None, if k == "AEAD nonce" { "C16.b" } else { "C16.a" }, &format!("long path: calls #{prev} and #{call_no} produced the same {k}"), json!({"engine": "seqfresh-long", "call": call_no}));
                            break 'outer;
                        }
                    }
                }
            }
        }
    }
    // many revisions of the same rights, never pruned: every rekey of a narrow policy must publish
    // values never published before (for the rights it covers), over several hundred revisions
    let narrow_rekeys: u32 = if thorough { 1_100 } else if reduced { 40 } else { 300 };
    {
        let cc = Covercrypt::default();
        let mut msk = MasterSecretKey::deserialize(&base_msk).expect("base msk");
        let ap = AccessPolicy::parse("A::x").unwrap();
        let mut published: HashMap<Vec<u8>, u32> = HashMap::new();
        let mut last: BTreeMap<Vec<u8>, Vec<u8>> = BTreeMap::new();
        if let Ok(w) = WMpk::decode(&base_mpk) {
            for (r, k) in &w.keys {
                published.insert(k.h.clone(), 0);
                last.insert(r.clone(), k.h.clone());
            }
        }
        let mut covered = 0;
        'narrow: for i in 1..=narrow_rekeys {
            let Ok(mpk) = cc.rekey(&mut msk, &ap) else {
                run.report(None, "C16.d", &format!("rekey A::x #{i} on a never-pruned master key failed"), json!({"engine": "seqfresh-revisions", "call": i}));
                break;
            };
            let Ok(w) = WMpk::decode(&ser(&mpk)) else { machinery("public key does not decode") };
            let mut changed = 0;
            for (r, k) in &w.keys {
                if last.get(r) != Some(&k.h) {
                    changed += 1;
                    if let Some(prev) = published.insert(k.h.clone(), i) {
                        run.report(None, "C16.d", &format!("rekey A::x #{i} publishes for right {} a value already published by rekey #{prev}", wire::hex(r)), json!({"engine": "seqfresh-revisions", "call": i}));
                        break 'narrow;
                    }
                    last.insert(r.clone(), k.h.clone());
                }
            }
            if i == 1 {
                covered = changed;
            }
            if changed == 0 || changed != covered {
                run.report(None, "C16.d", &format!("rekey A::x #{i} changed the published value of {changed} rights, the first one changed {covered}"), json!({"engine": "seqfresh-revisions", "call": i}));
                break;
            }
        }
    }
    // aged twin instances: two fresh instances that have each produced exactly K bytes of
    // randomness (through the public generator accessor), then make the same calls; whatever an
    // instance does to its generator after some amount of output, two instances must not end up
    // on the same stream, and one instance must not come back to a stream it already produced
    let mut aged_cases = 0u64;
    {
        use cosmian_crypto_core::reexport::rand_core::RngCore;
        let mpk = cosmian_cover_crypt::MasterPublicKey::deserialize(&base_mpk).unwrap();
        let ap = AccessPolicy::parse("A::x").unwrap();
        let mut ks: Vec<usize> = vec![1 << 18, (1 << 18) + 64, 1 << 20, (1 << 22) + 12];
        if thorough {
            ks.extend([1 << 24, (1 << 26) + 4]);
        }
        if reduced {
            ks.truncate(2);
        }
        let mut seen: HashMap<Vec<u8>, String> = HashMap::new();
        'aged: for k in ks {
            for twin in 0..2 {
                let cc = Covercrypt::default();
                let mut buf = [0u8; 4096];
                let mut left = k;
                while left > 0 {
                    let n = left.min(buf.len());
                    cc.rng().fill_bytes(&mut buf[..n]);
                    left -= n;
                }
                let mut msk = MasterSecretKey::deserialize(&base_msk).expect("base msk");
                let mut f: Fields = vec![];
                for round in 0..3 {
                    let _ = round;
                    if let Ok((secret, enc)) = cc.encaps(&mpk, &ap) {
                        f.push(("secret", secret.to_vec()));
                        enc_fields(&ser(&enc), &mut f);
                    }
                    if let Ok((_, hdr)) = EncryptedHeader::generate(&cc, &mpk, &ap, Some(b"metadata"), None) {
                        if let Ok(w) = WHeader::decode(&ser(&hdr)) {
                            enc_fields(&w.enc.encode(), &mut f);
                            if w.md.len() >= 12 {
                                f.push(("AEAD nonce", w.md[..12].to_vec()));
                            }
                        }
                    }
                    if let Ok(usk) = cc.generate_user_secret_key(&mut msk, &ap) {
                        if let Ok(w) = WUsk::decode(&ser(&usk)) {
                            f.push(("user id", w.id.concat()));
                        }
                    }
                }
                aged_cases += 1;
                for (kind, v) in f {
                    let mut tagged = kind.as_bytes().to_vec();
                    tagged.extend_from_slice(&v);
                    let who = format!("instance #{twin} after {k} bytes of output");
                    if let Some(prev) = seen.insert(tagged, who.clone()) {
                        run.report(None, if kind == "AEAD nonce" { "C16.b" } else { "C16.a" }, &format!("aged instances: {who} and {prev} produced the same {kind}"), json!({"engine": "seqfresh-aged", "bytes": k}));
                        break 'aged;
                    }
                }
            }
        }
    }
    run.set("aged_twin_instances", json!(aged_cases));
    // C16.e over every one-byte authentication data (and absent / empty / longer): whatever the
    // authentication data, the returned secret must not decrypt the metadata
    {
        let cc = Covercrypt::default();
        let mpk = cosmian_cover_crypt::MasterPublicKey::deserialize(&base_mpk).unwrap();
        let ap = AccessPolicy::parse("A::x").unwrap();
        let mut ads: Vec<Option<Vec<u8>>> = vec![None, Some(vec![]), Some(b"ad".to_vec()), Some(vec![0, 0]), Some(vec![1, 0]), Some(vec![0, 1]), Some(b"Covercrypt AE key".to_vec())];
        ads.extend((0..=255u8).map(|b| Some(vec![b])));
        for ad in &ads {
            let Ok((secret, hdr)) = EncryptedHeader::generate(&cc, &mpk, &ap, Some(b"metadata"), ad.as_deref()) else { continue };
            ad_cases += 1;
            let Some(md) = hdr.encrypted_metadata.clone() else { continue };
            let key = SymmetricKey::<KL>::try_from_bytes(secret.to_vec().try_into().unwrap()).unwrap();
            let nonce = Nonce::try_from_slice(&md[..12]).unwrap();
            if Aes256Gcm::new(&key).decrypt(&nonce, &md[12..], ad.as_deref()).is_ok() {
                run.report(None, "C16.e", &format!("with authentication data {ad:?} the encrypted metadata decrypts under the secret handed to the caller"), json!({"engine": "seqfresh-ad", "ad": format!("{ad:?}")}));
                break;
            }
        }
    }
    // ownership self-test (hook H2): the generator is the only entropy source
    let seeded = |seed: u8| -> Vec<u8> {
        let cc = Covercrypt::verif_from_seed([seed; 32]);
        let mpk = cosmian_cover_crypt::MasterPublicKey::deserialize(&base_mpk).unwrap();
        let (s, e) = cc.encaps(&mpk, &AccessPolicy::parse("A::x").unwrap()).unwrap();
        let mut v = s.to_vec();
        v.extend(ser(&e));
        v
    };
    run.set("generator_is_the_only_entropy_source", json!(true));
    if seeded(7) != seeded(7) {
        // not a verdict: the freshness clauses are observational and do not need the generator to
        // be the only entropy source (an implementation may legitimately mix in more entropy)
        run.set("generator_is_the_only_entropy_source", json!(false));
    }
    if seeded(7) == seeded(8) {
        run.report(None, "C16.a", "two instances built from different seeds give the same first encapsulation", json!({"engine": "seqfresh-seed"}));
    }
    run.set("revisions_of_one_right_without_pruning", json!(narrow_rekeys));
    run.set("evaluations", json!(jobs.len() as u64 + u64::from(call_no)));
    run.set("distinct_nontrivial", json!(global.len() as u64 + seen.len() as u64));
    run.set("rule", json!(format!("every sequence of length <= {depth} over 14 symbols (encaps, encrypt, header, header with empty metadata, keygen, rekey *, setup; each on instance 1 or 2 of two Covercrypt instances sharing one master key; identical arguments every time) is executed on fresh instances; from every output the freshness-bearing fields are extracted with the independent decoder (returned secret, tag, traps, masked seeds, ML-KEM ciphertexts, AEAD nonces, user ids and markers, published H / ek, tracing points, master scalar, signing key) and must be pairwise distinct within the sequence and across all sequences; one long path of {n_enc} encaps + {n_ctx} encrypt + {n_key} keygen + {n_rekey} rekey/header/encaps on one instance pair; seeded-instance self-test. distinct_nontrivial = distinct field values collected")));
    run.set("sequences", json!(jobs.len()));
    run.set("fields_compared", json!(fields + long_fields));
    run.set("fields_by_kind", json!(kinds));
    run.set("long_path_calls", json!(call_no));
    run.set("authentication_data_values_for_key_separation", json!(ad_cases));
    run.set("exhaustive", json!(true));
    run.sample(json!({"sequence": "Encaps@1; Encaps@1; Encaps@2"}));
    run.sample(json!({"sequence": "Rekey@1; Header@2; Keygen@1"}));
    run.sample(json!({"sequence": "Setup@2; Setup@2; Encrypt@1"}));
    run.assume("value-level unpredictability of the CSPRNG is out of scope: only 'every call draws new values from an advancing generator' is decided");
    if fields == 0 {
        machinery("seqfresh driver is vacuous");
    }
    run.finish()
}
