//! C15: the policy parser is total (every string over a small alphabet up to a length bound)
//! and logically faithful (every boolean formula up to a size bound, several print styles,
//! against a reference evaluator written from the documented grammar).

use std::collections::BTreeSet;
use std::panic::catch_unwind;

use serde_json::json;

use cosmian_cover_crypt::AccessPolicy;

use crate::common::{machinery, par_map, Run};

const ALPHABET: [&str; 10] = ["(", ")", "&", "|", ":", " ", "*", "a", "b", "é"];

fn silence_panics() {
    std::panic::set_hook(Box::new(|_| {}));
}

/// Parses (and expands) one string; Err(()) on panic.
fn try_parse(s: &str) -> Result<Option<AccessPolicy>, ()> {
    catch_unwind(|| {
        let r = AccessPolicy::parse(s);
        if let Ok(p) = &r {
            let _ = p.to_dnf();
        }
        r.ok()
    })
    .map_err(|_| ())
}

struct Totality {
    strings: u64,
    accepted: u64,
    panics: Vec<String>,
}

fn enumerate_strings(prefix: &str, remaining: usize, extra: &[&str], out: &mut Totality) {
    out.strings += 1;
    match try_parse(prefix) {
        Ok(Some(_)) => out.accepted += 1,
        Ok(None) => {}
        Err(()) => {
            if out.panics.len() < 20 {
                out.panics.push(prefix.to_string());
            }
        }
    }
    if remaining == 0 {
        return;
    }
    let mut buf = String::with_capacity(prefix.len() + 4);
    for sym in ALPHABET.iter().chain(extra.iter()) {
        buf.clear();
        buf.push_str(prefix);
        buf.push_str(sym);
        enumerate_strings(&buf, remaining - 1, extra, out);
    }
}

// ---------------------------------------------------------------------------------------
// formulas

#[derive(Clone, Debug)]
enum F {
    Leaf(usize),
    And(Box<F>, Box<F>),
    Or(Box<F>, Box<F>),
}

// two attributes differ only by a blank inside the name; one has `*` at the start of its dimension
// and at the end of its name (legal: names are /[^&|: ]+/); one has multi-byte characters, an inner
// blank, and characters whose code points equal a metacharacter modulo 256 (U+017C ~ '|',
// U+0126 ~ '&', U+0128 ~ '(', U+0129 ~ ')', U+013A ~ ':', U+0120 ~ ' ', U+012A ~ '*')
const ATTRS: [(&str, &str); 4] = [("D1", "ab"), ("D1", "a b"), ("*D2", "a*"), ("DéżĦ", "ü ĨĩĺĠĪ")];

fn shapes(n: usize) -> Vec<F> {
    // all binary trees with n leaves; leaves numbered later
    if n == 1 {
        return vec![F::Leaf(0)];
    }
    let mut out = vec![];
    for k in 1..n {
        for l in shapes(k) {
            for r in shapes(n - k) {
                out.push(F::And(Box::new(l.clone()), Box::new(r.clone())));
                out.push(F::Or(Box::new(l.clone()), Box::new(r.clone())));
            }
        }
    }
    out
}

fn assign_leaves(f: &F, leaves: &[usize], pos: &mut usize) -> F {
    match f {
        F::Leaf(_) => {
            let l = F::Leaf(leaves[*pos]);
            *pos += 1;
            l
        }
        F::And(a, b) => {
            let x = assign_leaves(a, leaves, pos);
            let y = assign_leaves(b, leaves, pos);
            F::And(Box::new(x), Box::new(y))
        }
        F::Or(a, b) => {
            let x = assign_leaves(a, leaves, pos);
            let y = assign_leaves(b, leaves, pos);
            F::Or(Box::new(x), Box::new(y))
        }
    }
}

fn eval_f(f: &F, m: u32) -> bool {
    match f {
        F::Leaf(i) => m & (1 << i) != 0,
        F::And(a, b) => eval_f(a, m) && eval_f(b, m),
        F::Or(a, b) => eval_f(a, m) || eval_f(b, m),
    }
}

fn leaves_of(f: &F, out: &mut BTreeSet<usize>) {
    match f {
        F::Leaf(i) => {
            out.insert(*i);
        }
        F::And(a, b) | F::Or(a, b) => {
            leaves_of(a, out);
            leaves_of(b, out);
        }
    }
}

fn attr_text(i: usize, style: usize) -> String {
    let (d, n) = ATTRS[i];
    match style {
        1 | 4 => format!(" {d} :: {n} "),
        _ => format!("{d}::{n}"),
    }
}

/// Prints with the parentheses the precedence requires (style 0/1/4), around every sub-term
/// (2), doubled (3). Style 4 adds leading/trailing blanks.
fn print(f: &F, style: usize, top: bool) -> String {
    let s = match f {
        F::Leaf(i) => {
            let t = attr_text(*i, style);
            match style {
                2 if !top => format!("({t})"),
                3 if !top => format!("(({t}))"),
                _ => t,
            }
        }
        F::And(a, b) => {
            let pa = print(a, style, false);
            let pb = print(b, style, false);
            let wrap = |x: &F, p: String| match (style, x) {
                (0 | 1 | 4, F::Or(..)) => format!("({p})"),
                _ => p,
            };
            let sep = if style == 1 || style == 4 { "  &&  " } else { " && " };
            let inner = format!("{}{sep}{}", wrap(a, pa), wrap(b, pb));
            // a right operand that is itself a conjunction needs no parentheses (associative)
            match style {
                2 if !top => format!("({inner})"),
                3 if !top => format!("(({inner}))"),
                _ => inner,
            }
        }
        F::Or(a, b) => {
            let pa = print(a, style, false);
            let pb = print(b, style, false);
            let sep = if style == 1 || style == 4 { "  ||  " } else { " || " };
            let inner = format!("{pa}{sep}{pb}");
            match style {
                2 if !top => format!("({inner})"),
                3 if !top => format!("(({inner}))"),
                _ => inner,
            }
        }
    };
    if top && style == 4 {
        format!("   {s}  ")
    } else {
        s
    }
}

// reference parser, written from the documented grammar: grouping first, AND before OR
struct P<'a> {
    t: Vec<&'a str>,
    i: usize,
}

fn tokenize(s: &str) -> Vec<&str> {
    let mut out = vec![];
    let b = s.as_bytes();
    let mut i = 0;
    while i < b.len() {
        match b[i] {
            b'(' | b')' => {
                out.push(&s[i..i + 1]);
                i += 1;
            }
            b'&' | b'|' => {
                out.push(&s[i..i + 2]);
                i += 2;
            }
            _ => {
                let st = i;
                while i < b.len() && !matches!(b[i], b'(' | b')' | b'&' | b'|') {
                    i += 1;
                }
                if !s[st..i].trim().is_empty() {
                    out.push(s[st..i].trim());
                }
            }
        }
    }
    out
}

impl<'a> P<'a> {
    fn expr(&mut self, names: &mut Vec<(String, String)>, m: &dyn Fn(&str, &str) -> bool) -> bool {
        let mut v = self.term(names, m);
        while self.i < self.t.len() && self.t[self.i] == "||" {
            self.i += 1;
            let r = self.term(names, m);
            v = v || r;
        }
        v
    }
    fn term(&mut self, names: &mut Vec<(String, String)>, m: &dyn Fn(&str, &str) -> bool) -> bool {
        let mut v = self.factor(names, m);
        while self.i < self.t.len() && self.t[self.i] == "&&" {
            self.i += 1;
            let r = self.factor(names, m);
            v = v && r;
        }
        v
    }
    fn factor(&mut self, names: &mut Vec<(String, String)>, m: &dyn Fn(&str, &str) -> bool) -> bool {
        let t = self.t[self.i];
        self.i += 1;
        if t == "(" {
            let v = self.expr(names, m);
            self.i += 1; // ")"
            v
        } else {
            let (d, n) = t.split_once("::").expect("attribute");
            let (d, n) = (d.trim(), n.trim());
            names.push((d.to_string(), n.to_string()));
            m(d, n)
        }
    }
}

fn eval_policy(p: &AccessPolicy, m: &dyn Fn(&str, &str) -> bool) -> bool {
    match p {
        AccessPolicy::Broadcast => true,
        AccessPolicy::Term(q) => m(&q.dimension, &q.name),
        AccessPolicy::Conjunction(a, b) => eval_policy(a, m) && eval_policy(b, m),
        AccessPolicy::Disjunction(a, b) => eval_policy(a, m) || eval_policy(b, m),
    }
}

fn names_policy(p: &AccessPolicy, out: &mut BTreeSet<(String, String)>) {
    match p {
        AccessPolicy::Broadcast => {}
        AccessPolicy::Term(q) => {
            out.insert((q.dimension.clone(), q.name.clone()));
        }
        AccessPolicy::Conjunction(a, b) | AccessPolicy::Disjunction(a, b) => {
            names_policy(a, out);
            names_policy(b, out);
        }
    }
}

#[derive(Default)]
struct Faith {
    formulas: u64,
    printed: u64,
    assignments: u64,
    failures: Vec<(String, String)>,
}

fn check_formula(f: &F, out: &mut Faith) {
    out.formulas += 1;
    let mut used = BTreeSet::new();
    leaves_of(f, &mut used);
    for style in 0..5 {
        let text = print(f, style, true);
        out.printed += 1;
        // self-check of the printer with the reference reading
        let toks = tokenize(&text);
        for m in 0..16u32 {
            let assign = |d: &str, n: &str| ATTRS.iter().position(|(ad, an)| *ad == d && *an == n).map(|i| m & (1 << i) != 0).unwrap_or(false);
            let mut names = vec![];
            let mut p = P { t: toks.clone(), i: 0 };
            let want = p.expr(&mut names, &assign);
            if want != eval_f(f, m) || p.i != toks.len() {
                machinery(&format!("printer/reference disagree on {text:?}"));
            }
        }
        let parsed = match try_parse(&text) {
            Err(()) => {
                out.failures.push(("C15.a".into(), format!("parser panicked on {text:?}")));
                continue;
            }
            Ok(None) => {
                out.failures.push(("C15.b".into(), format!("{text:?} is in the documented grammar but was rejected")));
                continue;
            }
            Ok(Some(p)) => p,
        };
        let dnf = parsed.to_dnf();
        for m in 0..16u32 {
            out.assignments += 1;
            let assign = |d: &str, n: &str| ATTRS.iter().position(|(ad, an)| *ad == d && *an == n).map(|i| m & (1 << i) != 0).unwrap_or(false);
            let want = eval_f(f, m);
            if eval_policy(&parsed, &assign) != want {
                out.failures.push(("C15.c".into(), format!("{text:?}: parsed policy evaluates to {} under assignment {m:04b}, the expression reads {want}", !want)));
                break;
            }
            let d = dnf.iter().any(|c| c.iter().all(|q| assign(&q.dimension, &q.name)));
            if d != want {
                out.failures.push(("C15.d".into(), format!("{text:?}: DNF evaluates to {d} under assignment {m:04b}, the expression reads {want}")));
                break;
            }
        }
        let mut got = BTreeSet::new();
        names_policy(&parsed, &mut got);
        let want: BTreeSet<(String, String)> = used.iter().map(|i| (ATTRS[*i].0.to_string(), ATTRS[*i].1.to_string())).collect();
        if got != want {
            out.failures.push(("C15.e".into(), format!("{text:?}: attribute names {got:?}, expected {want:?}")));
        }
        let dnf_names: BTreeSet<(String, String)> = dnf.iter().flatten().map(|q| (q.dimension.clone(), q.name.clone())).collect();
        if dnf_names != want {
            out.failures.push(("C15.e".into(), format!("{text:?}: DNF attribute names {dnf_names:?}, expected {want:?}")));
        }
    }
}

pub fn check(prop: &str, tier: &str) -> i32 {
    let thorough = tier == "thorough";
    let mut run = Run::new(prop, tier, "exploration");
    silence_panics();
    let len: usize = std::env::var("VERIF_PARSE_LEN").ok().and_then(|s| s.parse().ok()).unwrap_or(if thorough { 9 } else { 7 });
    // (o) faithfulness from the initial state of the process: every formula with <= 2 leaves,
    // sequentially and before anything else was parsed (a parser that remembers earlier inputs
    // is in its initial state only here); repeated at the very end, after ~10^7 other inputs
    let small_formulas = |run: &mut Run, when: &str| -> u64 {
        let mut out = Faith::default();
        for k in 1..=2usize {
            for shape in shapes(k) {
                for code in 0..4usize.pow(k as u32) {
                    let leaves: Vec<usize> = (0..k).map(|i| (code / 4usize.pow(i as u32)) % 4).collect();
                    check_formula(&assign_leaves(&shape, &leaves, &mut 0), &mut out);
                }
            }
        }
        for (c, m) in out.failures.iter().take(4) {
            run.report(None, c, &format!("{when}: {m}"), json!({"engine": "parsex", "message": m}));
        }
        out.printed
    };
    let early_printed = small_formulas(&mut run, "first inputs of the process");
    // (i) totality: split on the first two symbols for parallelism
    let mut prefixes: Vec<String> = vec![String::new()];
    for a in ALPHABET {
        prefixes.push(a.to_string());
        for b in ALPHABET {
            prefixes.push(format!("{a}{b}"));
        }
    }
    let results = par_map(&prefixes, |_, p| {
        let mut t = Totality { strings: 0, accepted: 0, panics: vec![] };
        let used = p.chars().count();
        if used < 2 {
            // the short strings themselves
            enumerate_strings(p, 0, &[], &mut t);
        } else {
            enumerate_strings(p, len - 2, &[], &mut t);
        }
        t
    });
    let mut strings = 0u64;
    let mut accepted = 0u64;
    let mut panics: Vec<String> = vec![];
    for t in results {
        strings += t.strings;
        accepted += t.accepted;
        panics.extend(t.panics);
    }
    // multi-byte supplements (3- and 4-byte characters) at a shorter length
    let wide_len = len.saturating_sub(if thorough { 3 } else { 2 });
    let mut t = Totality { strings: 0, accepted: 0, panics: vec![] };
    enumerate_wide("", wide_len, &mut t);
    let wide_strings = t.strings;
    accepted += t.accepted;
    panics.extend(t.panics);
    panics.sort_by_key(|s| (s.chars().count(), s.clone()));
    for p in panics.iter().take(5) {
        run.report(None, "C15.a", &format!("AccessPolicy::parse panics on {p:?}"), json!({"engine": "parsex", "input": p}));
    }

    // (i') long inputs: every short core embedded in fillers of growing length, so that a
    // multi-byte character sits at every byte offset of a long (valid or invalid) expression
    let mut cores: Vec<String> = vec![String::new()];
    for a in ALPHABET {
        cores.push(a.to_string());
        for b in ALPHABET {
            cores.push(format!("{a}{b}"));
            for c in ALPHABET {
                cores.push(format!("{a}{b}{c}"));
            }
        }
    }
    let max_fill = if thorough { 70 } else { 36 };
    let long_results = par_map(&cores, |_, core| {
        let mut t = Totality { strings: 0, accepted: 0, panics: vec![] };
        for filler in ["a", "é", "€", "😀"] {
            let mut fill = String::new();
            for _ in 0..=max_fill {
                for s in [format!("{fill}{core}"), format!("{core}{fill}"), format!("({fill}{core}"), format!("D::{fill}{core} && (x::y || {fill}"), format!("{fill}::{fill}{core}")] {
                    t.strings += 1;
                    match try_parse(&s) {
                        Ok(Some(_)) => t.accepted += 1,
                        Ok(None) => {}
                        Err(()) => {
                            if t.panics.len() < 3 {
                                t.panics.push(s);
                            }
                        }
                    }
                }
                fill.push_str(filler);
            }
        }
        t
    });
    let mut long_strings = 0u64;
    let mut large_cases = 0u64;
    for t in long_results {
        long_strings += t.strings;
        accepted += t.accepted;
        panics.extend(t.panics);
    }
    panics.sort_by_key(|s| (s.chars().count(), s.clone()));
    for p in panics.iter().take(3) {
        if !run.violations.iter().any(|_| false) && run.violations.len() < 5 {
            run.report(None, "C15.a", &format!("AccessPolicy::parse panics on {p:?}"), json!({"engine": "parsex", "input": p}));
        }
    }

    // (i'') large but regular valid policies: many operands, deep nesting, long names
    {
        let long_name = "N".repeat(300);
        let mut cases: Vec<(String, usize, usize)> = vec![]; // (text, expected clauses, expected attributes per clause)
        for n in [2usize, 50, 129, 300] {
            cases.push(((0..n).map(|i| format!("D::a{i}")).collect::<Vec<_>>().join(" || "), n, 1));
            cases.push(((0..n).map(|i| format!("D{i}::a")).collect::<Vec<_>>().join(" && "), 1, n));
        }
        for depth in [1usize, 40, 200] {
            cases.push((format!("{}D::a && E::b{}", "(".repeat(depth), ")".repeat(depth)), 1, 2));
        }
        cases.push((format!("{long_name}::{long_name} && D::a"), 1, 2));
        cases.push(((0..12).map(|i| format!("(X{i}::a || Y{i}::b)")).collect::<Vec<_>>().join(" && "), 4096, 12));
        for (text, clauses, per) in cases {
            large_cases += 1;
            match try_parse(&text) {
                Err(()) => run.report(None, "C15.a", &format!("AccessPolicy::parse panics on a {}-byte regular policy starting with {:?}", text.len(), &text[..40.min(text.len())]), json!({"engine": "parsex", "input": text})),
                Ok(None) => run.report(None, "C15.b", &format!("a {}-byte policy of the documented grammar starting with {:?} is rejected", text.len(), &text[..40.min(text.len())]), json!({"engine": "parsex", "input": text})),
                Ok(Some(p)) => {
                    let dnf = p.to_dnf();
                    if dnf.len() != clauses || dnf.iter().any(|c| c.len() != per) {
                        run.report(None, "C15.d", &format!("the DNF of a regular policy starting with {:?} has {} clauses (expected {clauses}) of sizes other than {per}", &text[..40.min(text.len())], dnf.len()), json!({"engine": "parsex", "input": text}));
                    }
                }
            }
        }
    }

    // (ii) faithfulness
    let n = if thorough { 6 } else { 5 };
    let mut jobs: Vec<F> = vec![];
    for k in 1..=n {
        jobs.extend(shapes(k));
    }
    let faith = par_map(&jobs, |_, shape| {
        let mut out = Faith::default();
        let k = count_leaves(shape);
        let total = 4usize.pow(k as u32);
        for code in 0..total {
            let leaves: Vec<usize> = (0..k).map(|i| (code / 4usize.pow(i as u32)) % 4).collect();
            let f = assign_leaves(shape, &leaves, &mut 0);
            check_formula(&f, &mut out);
            if out.failures.len() > 5 {
                break;
            }
        }
        out
    });
    let mut formulas = 0;
    let mut printed = 0;
    let mut assignments = 0;
    let mut reported = 0;
    for f in faith {
        formulas += f.formulas;
        printed += f.printed;
        assignments += f.assignments;
        for (c, m) in f.failures {
            if reported < 8 {
                run.report(None, &c, &m, json!({"engine": "parsex", "message": m}));
                reported += 1;
            }
        }
    }
    let late_printed = small_formulas(&mut run, "after all other inputs");
    run.set("small_formulas_first_and_last", json!(early_printed + late_printed));
    run.set("evaluations", json!(strings + wide_strings + long_strings + printed));
    run.set("long_strings_enumerated", json!(long_strings));
    run.set("large_regular_policies", json!(large_cases));
    run.set("distinct_nontrivial", json!(accepted + printed));
    run.set("rule", json!(format!("(i) every string of length <= {len} over the 10 symbols ( ) & | : space * a b é (é is 2 bytes), plus every string of length <= {wide_len} over the same symbols extended with a 3-byte and a 4-byte character, is parsed under catch_unwind and expanded to DNF when accepted; (i') every string of length <= 3 over the 10 symbols embedded in 5 templates with fillers of 0..36 (thorough 70) repetitions of a 1-, 2-, 3- and 4-byte character (a multi-byte character at every byte offset of long valid and invalid expressions); (o) the formulas with <= 2 leaves are checked as in (ii) as the very first inputs of the process and again as the last ones; (ii) every boolean formula with <= {n} leaves over 4 attributes (one with a multi-byte dimension and a name containing a blank), every tree shape and operator assignment, printed in 5 styles (minimal, spaced, parenthesised everywhere, doubly parenthesised, padded) is parsed and compared with a reference reader (grouping first, AND before OR) on all 16 truth assignments, for the tree and for its DNF, and on attribute names. distinct_nontrivial = accepted strings + printed formulas")));
    run.set("strings_enumerated", json!(strings));
    run.set("wide_strings_enumerated", json!(wide_strings));
    run.set("strings_accepted", json!(accepted));
    run.set("formulas", json!(formulas));
    run.set("printed_formulas", json!(printed));
    run.set("truth_assignments_compared", json!(assignments));
    run.set("exhaustive", json!(true));
    run.sample(json!({"string": "(a::b)&"}));
    run.sample(json!({"string": "é::a|"}));
    run.sample(json!({"formula": print(&F::And(Box::new(F::Or(Box::new(F::Leaf(0)), Box::new(F::Leaf(3)))), Box::new(F::Leaf(2))), 0, true)}));
    run.sample(json!({"formula": print(&F::Or(Box::new(F::Leaf(1)), Box::new(F::And(Box::new(F::Leaf(3)), Box::new(F::Leaf(2))))), 3, true)}));
    run.assume("out of scope: stack exhaustion on 10^5-deep nesting and the inherent exponential size of a DNF");
    if accepted == 0 || printed == 0 {
        machinery("parsex driver is vacuous");
    }
    run.finish()
}

fn count_leaves(f: &F) -> usize {
    match f {
        F::Leaf(_) => 1,
        F::And(a, b) | F::Or(a, b) => count_leaves(a) + count_leaves(b),
    }
}

fn enumerate_wide(prefix: &str, remaining: usize, out: &mut Totality) {
    // only strings containing at least one wide character are new
    fn rec(prefix: &str, remaining: usize, has_wide: bool, out: &mut Totality) {
        if has_wide {
            out.strings += 1;
            match try_parse(prefix) {
                Ok(Some(_)) => out.accepted += 1,
                Ok(None) => {}
                Err(()) => {
                    if out.panics.len() < 20 {
                        out.panics.push(prefix.to_string());
                    }
                }
            }
        }
        if remaining == 0 {
            return;
        }
        for sym in ALPHABET.iter().chain(["€", "😀"].iter()) {
            let s = format!("{prefix}{sym}");
            rec(&s, remaining - 1, has_wide || *sym == "€" || *sym == "😀", out);
        }
    }
    rec(prefix, remaining, false, out);
}
