//! C19 (and the cross-thread half of C16): controlled scheduler over the lock seam of
//! `Covercrypt` (hook H1). Threads of a scenario are real OS threads but run one at a time
//! under a baton; at every scheduling point (thread start, before a lock request, right after
//! an acquisition, before a try_lock) the explorer decides who runs next. Stateless DFS over
//! choice sequences, iteratively preemption-bounded.

use std::cell::Cell;
use std::collections::{BTreeSet, HashSet};
use std::panic::{catch_unwind, AssertUnwindSafe};
use std::sync::{Arc, Condvar, Mutex};
use std::time::Duration;

use serde_json::json;

use cosmian_cover_crypt::{
    api::Covercrypt,
    traits::{KemAc, PkeAc},
    verif_hooks::{set_lock_observer, LockEvent},
    AccessPolicy, EncryptedHeader, MasterPublicKey, MasterSecretKey, UserSecretKey, XEnc,
};
use cosmian_crypto_core::{bytes_ser_de::Serializable, Aes256Gcm};

use crate::common::{machinery, Run};
use crate::ftamper::w1;
use crate::wire::{self, WEnc, WUsk};
use crate::world::ser;

#[derive(Clone, Copy, Debug, PartialEq, Eq)]
enum At {
    NotStarted,
    Start,
    BeforeLock,
    Holding,
    BeforeTry,
    Done,
}

struct State {
    turn: Option<usize>,
    at: Vec<At>,
    /// mutex address -> thread holding it (several mutexes may be routed through the seam)
    holders: std::collections::HashMap<usize, usize>,
    /// mutex each thread is about to request
    wants: Vec<Option<usize>>,
    /// sequence of (thread, point) reached, for replay-divergence checks and section orders
    trace: Vec<(usize, At)>,
    acquisitions: Vec<usize>,
}

struct Ctl {
    m: Mutex<State>,
    cv: Condvar,
}

thread_local! {
    static TID: Cell<Option<usize>> = const { Cell::new(None) };
}
static CURRENT: Mutex<Option<Arc<Ctl>>> = Mutex::new(None);

fn current() -> Option<Arc<Ctl>> {
    CURRENT.lock().unwrap_or_else(|e| e.into_inner()).clone()
}

impl Ctl {
    /// Thread side: announce the point and wait for the baton.
    fn reach(&self, tid: usize, at: At) {
        let mut st = self.m.lock().unwrap_or_else(|e| e.into_inner());
        st.at[tid] = at;
        st.trace.push((tid, at));
        st.turn = None;
        self.cv.notify_all();
        if at == At::Done {
            return;
        }
        while st.turn != Some(tid) {
            st = self.cv.wait(st).unwrap_or_else(|e| e.into_inner());
        }
    }
}

fn observer(ev: LockEvent, addr: usize) {
    let Some(tid) = TID.with(Cell::get) else { return };
    let Some(ctl) = current() else { return };
    match ev {
        LockEvent::BeforeLock => {
            ctl.m.lock().unwrap_or_else(|e| e.into_inner()).wants[tid] = Some(addr);
            ctl.reach(tid, At::BeforeLock)
        }
        LockEvent::BeforeTryLock => ctl.reach(tid, At::BeforeTry),
        LockEvent::Acquired => {
            {
                let mut st = ctl.m.lock().unwrap_or_else(|e| e.into_inner());
                st.holders.insert(addr, tid);
                st.wants[tid] = None;
                st.acquisitions.push(tid);
            }
            ctl.reach(tid, At::Holding);
        }
        LockEvent::Released => {
            let mut st = ctl.m.lock().unwrap_or_else(|e| e.into_inner());
            if st.holders.get(&addr) == Some(&tid) {
                st.holders.remove(&addr);
            }
        }
    }
}

// ---------------------------------------------------------------------------------------
// scenarios

#[derive(Clone, Debug)]
pub enum Call {
    Encaps(&'static str),
    Decaps,
    Encrypt(&'static str),
    Header(&'static str),
    HeaderRoundTrip(&'static str),
    Keygen(&'static str),
    Refresh,
    Rekey(&'static str),
    Recaps,
    /// decapsulation of a well-formed encapsulation that holds no right-encapsulation at all
    DecapsCrafted,
    /// re-encapsulation with a public key that predates one of the rights (alone: an error)
    RecapsStale,
}

#[derive(Debug)]
pub enum Output {
    Enc { policy: &'static str, secret: Vec<u8>, enc: Vec<u8> },
    Decapsed { ok: bool },
    /// outcome of the crafted decapsulation, compared with the outcome of the same call alone
    Crafted { outcome: String },
    Stale { outcome: String },
    Ctx { policy: &'static str, enc: Vec<u8>, body: Vec<u8> },
    Hdr { policy: &'static str, secret: Vec<u8>, hdr: Vec<u8> },
    HdrRt { ok: bool },
    Key { policy: &'static str, usk: Vec<u8> },
    Refreshed { usk: Vec<u8> },
    Rekeyed { mpk: Vec<u8> },
    Failed(String),
}

pub struct Scenario {
    pub name: &'static str,
    pub threads: Vec<Vec<Call>>,
}

pub fn scenarios(thorough: bool) -> Vec<Scenario> {
    use Call::*;
    let mut v = vec![
        Scenario { name: "S1 encaps | encaps | decaps", threads: vec![vec![Encaps("A::x")], vec![Encaps("A::x")], vec![Decaps]] },
        Scenario { name: "S2 encrypt | encrypt", threads: vec![vec![Encrypt("A::x")], vec![Encrypt("A::x")]] },
        Scenario { name: "S3 header | encrypt | decaps", threads: vec![vec![Header("A::x")], vec![Encrypt("A::x || A::y")], vec![Decaps]] },
        Scenario { name: "S4 keygen | refresh | encaps", threads: vec![vec![Keygen("A::x")], vec![Refresh], vec![Encaps("H::hi")]] },
        Scenario { name: "S5 rekey;encaps | recaps | header;roundtrip", threads: vec![vec![Rekey("A::y"), Encaps("A::x")], vec![Recaps], vec![HeaderRoundTrip("A::x")]] },
    ];
    // three dimensions, four-target policies, two different audiences
    v.push(Scenario { name: "S7 encaps(PX);encaps(PX) | encaps(PY) | keygen", threads: vec![vec![Encaps(PX), Encaps(PX)], vec![Encaps(PY)], vec![Keygen("A::x")]] });
    v.push(Scenario { name: "S8 encrypt(PX) | keygen | header(PY)", threads: vec![vec![Encrypt(PX)], vec![Keygen("A::y")], vec![Header(PY)]] });
    // one thread decapsulates hostile input while two others produce headers for two audiences
    v.push(Scenario { name: "S9 decaps(crafted) | header | header", threads: vec![vec![DecapsCrafted], vec![Header("A::x")], vec![Header("A::y")]] });
    // two threads open the same encapsulation with the same key while a third one encrypts
    v.push(Scenario { name: "S10 decaps | decaps | encrypt", threads: vec![vec![Decaps], vec![Decaps], vec![Encrypt("A::x")]] });
    // an administrator re-encapsulates with an outdated public key (an error when run alone)
    // while users encapsulate and decapsulate
    v.push(Scenario { name: "S11 recaps(stale public key) | encaps | decaps", threads: vec![vec![RecapsStale], vec![Encaps("A::x")], vec![Decaps]] });
    if thorough {
        v.push(Scenario { name: "S6 3 threads x 2 calls", threads: vec![vec![Encrypt("A::x"), Keygen("A::x")], vec![Header("A::x"), Encaps("A::x")], vec![Refresh, Encrypt("A::x")]] });
    } else {
        v.push(Scenario { name: "S6q 3 threads x 2 calls (short)", threads: vec![vec![Encaps("A::x"), Keygen("A::x")], vec![Header("A::x"), Decaps], vec![Refresh, Encaps("A::x")]] });
    }
    v
}

/// Immutable material shared by all executions.
pub struct Fixture {
    pub msk_bytes: Vec<u8>,
    pub mpk: MasterPublicKey,
    pub k_x: UserSecretKey,
    pub k_y: UserSecretKey,
    pub k_hi: UserSecretKey,
    pub k_yall: UserSecretKey,
    pub enc0: XEnc,
    pub secret0: Vec<u8>,
    pub issued_usk: Vec<u8>,
    /// enc0 without any right-encapsulation, and what decapsulating it returns when run alone
    pub crafted: XEnc,
    pub crafted_alone: String,
    /// a public key published before dimension B existed, an encapsulation that needs B, and
    /// what re-encapsulating the latter with the former returns when run alone
    pub stale_mpk: MasterPublicKey,
    pub enc_b: XEnc,
    pub stale_alone: String,
}

/// Runs `f` on a thread of its own; `None` if it has not returned after `secs` seconds (the
/// thread is abandoned: the process is short-lived).
fn with_timeout<T: Send + 'static>(secs: u64, f: impl FnOnce() -> T + Send + 'static) -> Option<T> {
    let (tx, rx) = std::sync::mpsc::channel();
    std::thread::spawn(move || {
        let _ = tx.send(f());
    });
    rx.recv_timeout(Duration::from_secs(secs)).ok()
}

pub const NO_RETURN: &str = "no return after 20 s (the call blocks forever)";

fn stale_outcome(cc: &Covercrypt, msk: &MasterSecretKey, mpk: &MasterPublicKey, e: &XEnc) -> String {
    match catch_unwind(AssertUnwindSafe(|| cc.recaps(msk, mpk, e))) {
        Ok(Ok(_)) => "a new encapsulation".into(),
        Ok(Err(_)) => "error".into(),
        Err(_) => "panic".into(),
    }
}

fn crafted_outcome(cc: &Covercrypt, k: &UserSecretKey, e: &XEnc) -> String {
    match catch_unwind(AssertUnwindSafe(|| cc.decaps(k, e))) {
        Ok(Ok(Some(_))) => "a secret".into(),
        Ok(Ok(None)) => "no secret".into(),
        Ok(Err(e)) => format!("error: {e}"),
        Err(_) => "panic".into(),
    }
}

pub const PX: &str = "A::x && B::u && H::lo || A::x && B::u && H::hi || A::x && B::v && H::lo || A::x && B::v && H::hi";
pub const PY: &str = "A::y && B::u && H::lo || A::y && B::u && H::hi || A::y && B::v && H::lo || A::y && B::v && H::hi";

pub fn fixture() -> Fixture {
    // W1 plus a third dimension B{u, v}: three dimensions and policies with four targets
    let mut b = w1();
    let stale_mpk = MasterPublicKey::deserialize(&ser(&b.mpk)).expect("public key round-trip");
    b.msk.access_structure.add_anarchy("B".into()).unwrap();
    for n in ["u", "v"] {
        b.msk.access_structure.add_attribute(cosmian_cover_crypt::QualifiedAttribute::new("B", n), cosmian_cover_crypt::EncryptionHint::Classic, None).unwrap();
    }
    b.mpk = b.cc.update_msk(&mut b.msk).unwrap();
    let p = |s: &str| AccessPolicy::parse(s).unwrap();
    let k_x = b.cc.generate_user_secret_key(&mut b.msk, &p("A::x")).unwrap();
    let k_y = b.cc.generate_user_secret_key(&mut b.msk, &p("A::y && H::lo")).unwrap();
    let k_hi = b.cc.generate_user_secret_key(&mut b.msk, &p("H::hi")).unwrap();
    let k_yall = b.cc.generate_user_secret_key(&mut b.msk, &p("A::y")).unwrap();
    let issued = b.cc.generate_user_secret_key(&mut b.msk, &p("A::x && H::hi")).unwrap();
    let (s0, enc0) = b.cc.encaps(&b.mpk, &p("A::x")).unwrap();
    let crafted = {
        let mut w = wire::WEnc::decode(&ser(&enc0)).expect("decode enc0");
        w.items.clear();
        XEnc::deserialize(&w.encode()).expect("an encapsulation without items deserialises")
    };
    // alone, on an instance of its own (a panic there cannot reach the shared instance)
    let crafted_alone = {
        let (k, e) = (k_x.clone(), crafted.clone());
        with_timeout(20, move || crafted_outcome(&Covercrypt::default(), &k, &e)).unwrap_or_else(|| NO_RETURN.to_string())
    };
    let (_, enc_b) = b.cc.encaps(&b.mpk, &p("A::x && B::u")).unwrap();
    let stale_alone = {
        let (mb, pb, e) = (ser(&b.msk), ser(&stale_mpk), enc_b.clone());
        with_timeout(20, move || {
            let msk = MasterSecretKey::deserialize(&mb).expect("msk");
            let mpk = MasterPublicKey::deserialize(&pb).expect("mpk");
            stale_outcome(&Covercrypt::default(), &msk, &mpk, &e)
        })
        .unwrap_or_else(|| NO_RETURN.to_string())
    };
    Fixture { msk_bytes: ser(&b.msk), mpk: b.mpk, k_x, k_y, k_hi, k_yall, enc0, secret0: s0.to_vec(), issued_usk: ser(&issued), crafted, crafted_alone, stale_mpk, enc_b, stale_alone }
}

type E = Aes256Gcm;
const KL: usize = Aes256Gcm::KEY_LENGTH;
const PTX: &[u8] = b"the same plaintext in every thread";

fn run_call(cc: &Covercrypt, fx: &Fixture, msk: &mut MasterSecretKey, usk: &mut UserSecretKey, call: &Call) -> Output {
    let p = |s: &str| AccessPolicy::parse(s).unwrap();
    match call {
        Call::Encaps(pol) => match cc.encaps(&fx.mpk, &p(pol)) {
            Ok((s, e)) => Output::Enc { policy: pol, secret: s.to_vec(), enc: ser(&e) },
            Err(e) => Output::Failed(format!("encaps: {e}")),
        },
        Call::Decaps => match cc.decaps(&fx.k_x, &fx.enc0) {
            Ok(Some(s)) => Output::Decapsed { ok: s.to_vec() == fx.secret0 },
            Ok(None) => Output::Decapsed { ok: false },
            Err(e) => Output::Failed(format!("decaps: {e}")),
        },
        Call::Encrypt(pol) => match PkeAc::<KL, E>::encrypt(cc, &fx.mpk, &p(pol), PTX) {
            Ok((e, body)) => Output::Ctx { policy: pol, enc: ser(&e), body },
            Err(e) => Output::Failed(format!("encrypt: {e}")),
        },
        Call::Header(pol) => match EncryptedHeader::generate(cc, &fx.mpk, &p(pol), Some(b"metadata"), Some(b"ad")) {
            Ok((s, h)) => Output::Hdr { policy: pol, secret: s.to_vec(), hdr: ser(&h) },
            Err(e) => Output::Failed(format!("header: {e}")),
        },
        Call::HeaderRoundTrip(pol) => match EncryptedHeader::generate(cc, &fx.mpk, &p(pol), Some(b"metadata"), Some(b"ad")) {
            Ok((s, h)) => match h.decrypt(cc, &fx.k_x, Some(b"ad")) {
                Ok(Some(c)) => Output::HdrRt { ok: c.secret == s && c.metadata.as_deref() == Some(&b"metadata"[..]) },
                Ok(None) => Output::HdrRt { ok: false },
                Err(e) => Output::Failed(format!("header decrypt: {e}")),
            },
            Err(e) => Output::Failed(format!("header: {e}")),
        },
        Call::Keygen(pol) => match cc.generate_user_secret_key(msk, &p(pol)) {
            Ok(u) => Output::Key { policy: pol, usk: ser(&u) },
            Err(e) => Output::Failed(format!("keygen: {e}")),
        },
        Call::Refresh => match cc.refresh_usk(msk, usk, true) {
            Ok(()) => Output::Refreshed { usk: ser(usk) },
            Err(e) => Output::Failed(format!("refresh: {e}")),
        },
        Call::Rekey(pol) => match cc.rekey(msk, &p(pol)) {
            Ok(m) => Output::Rekeyed { mpk: ser(&m) },
            Err(e) => Output::Failed(format!("rekey: {e}")),
        },
        Call::DecapsCrafted => Output::Crafted { outcome: crafted_outcome(cc, &fx.k_x, &fx.crafted) },
        Call::RecapsStale => Output::Stale { outcome: stale_outcome(cc, msk, &fx.stale_mpk, &fx.enc_b) },
        Call::Recaps => match cc.recaps(msk, &fx.mpk, &fx.enc0) {
            Ok((s, e)) => Output::Enc { policy: "A::x", secret: s.to_vec(), enc: ser(&e) },
            Err(e) => Output::Failed(format!("recaps: {e}")),
        },
    }
}

#[derive(Debug)]
pub struct Point {
    pub enabled: Vec<usize>,
    pub current_enabled: bool,
}

pub struct Execution {
    pub choices: Vec<usize>,
    pub points: Vec<Point>,
    pub outputs: Vec<Vec<Output>>,
    pub problem: Option<(String, String)>,
    pub section_order: Vec<usize>,
    pub trace: Vec<(usize, At)>,
}

/// Runs one schedule: follows `prefix`, then the default choice (index 0 = keep the running
/// thread if it is still enabled, else the lowest enabled id).
pub fn execute(sc: &Scenario, fx: &Arc<Fixture>, prefix: &[usize]) -> Execution {
    let n = sc.threads.len();
    let ctl = Arc::new(Ctl { m: Mutex::new(State { turn: None, at: vec![At::NotStarted; n], holders: Default::default(), wants: vec![None; n], trace: vec![], acquisitions: vec![] }), cv: Condvar::new() });
    *CURRENT.lock().unwrap_or_else(|e| e.into_inner()) = Some(ctl.clone());
    let cc = Arc::new(Covercrypt::default());
    let mut handles = vec![];
    for (tid, calls) in sc.threads.iter().enumerate() {
        let ctl = ctl.clone();
        let cc = cc.clone();
        let fx = fx.clone();
        let calls = calls.clone();
        handles.push(std::thread::spawn(move || {
            // distinct key objects per thread
            let mut msk = MasterSecretKey::deserialize(&fx.msk_bytes).expect("fixture msk");
            let mut usk = UserSecretKey::deserialize(&fx.issued_usk).expect("fixture usk");
            TID.with(|t| t.set(Some(tid)));
            ctl.reach(tid, At::Start);
            let mut outs = vec![];
            for c in &calls {
                let r = catch_unwind(AssertUnwindSafe(|| run_call(&cc, &fx, &mut msk, &mut usk, c)));
                outs.push(r.unwrap_or_else(|_| Output::Failed(format!("{c:?} panicked"))));
            }
            TID.with(|t| t.set(None));
            ctl.reach(tid, At::Done);
            outs
        }));
    }
    let mut choices = vec![];
    let mut points = vec![];
    let mut problem = None;
    let mut running: Option<usize> = None;
    loop {
        // wait for quiescence: no thread holds the baton and every thread has announced itself
        let mut st = ctl.m.lock().unwrap_or_else(|e| e.into_inner());
        let deadline = std::time::Instant::now() + Duration::from_secs(10);
        while st.turn.is_some() || st.at.iter().any(|a| *a == At::NotStarted) {
            let left = deadline.saturating_duration_since(std::time::Instant::now());
            if left.is_zero() {
                problem = Some(("C19.a".to_string(), format!("thread {:?} did not reach its next scheduling point within 10 s (hang)", st.turn)));
                break;
            }
            let (g, _) = ctl.cv.wait_timeout(st, left).unwrap_or_else(|e| e.into_inner());
            st = g;
        }
        if problem.is_some() {
            break;
        }
        if st.at.iter().all(|a| *a == At::Done) {
            break;
        }
        let enabled: Vec<usize> = (0..n)
            .filter(|&t| match st.at[t] {
                At::Done | At::NotStarted => false,
                // a thread requesting a mutex that is held (by another thread, or by itself:
                // std mutexes are not re-entrant) cannot run
                At::BeforeLock => st.wants[t].map_or(true, |a| !st.holders.contains_key(&a)),
                _ => true,
            })
            .collect();
        if enabled.is_empty() {
            let held: Vec<usize> = st.holders.values().copied().collect();
            problem = Some(("C19.a".to_string(), format!("deadlock: no thread can run (points {:?}, mutexes held by threads {held:?})", st.at)));
            break;
        }
        // canonical order: the running thread first if still enabled, then ascending ids
        let mut order = vec![];
        let cur_enabled = running.is_some_and(|r| enabled.contains(&r));
        if let (true, Some(r)) = (cur_enabled, running) {
            order.push(r);
        }
        order.extend(enabled.iter().filter(|t| Some(**t) != running || !cur_enabled));
        let idx = if order.len() > 1 && choices.len() < prefix.len() { prefix[choices.len()] } else { 0 };
        if idx >= order.len() {
            machinery(&format!("schedule replay diverged: choice {idx} of {} at point {}", order.len(), choices.len()));
        }
        let pick = order[idx];
        if order.len() > 1 {
            choices.push(idx);
            points.push(Point { enabled: order.clone(), current_enabled: cur_enabled });
        }
        running = Some(pick);
        st.turn = Some(pick);
        ctl.cv.notify_all();
        drop(st);
    }
    let mut outputs = vec![];
    if problem.is_none() {
        for h in handles {
            outputs.push(h.join().unwrap_or_else(|_| vec![Output::Failed("thread panicked".into())]));
        }
    }
    // poisoned mutex?
    if problem.is_none() && catch_unwind(AssertUnwindSafe(|| drop(cc.rng()))).is_err() {
        problem = Some(("C19.a".to_string(), "the instance's mutex is poisoned after the run".to_string()));
    }
    *CURRENT.lock().unwrap_or_else(|e| e.into_inner()) = None;
    let st = ctl.m.lock().unwrap_or_else(|e| e.into_inner());
    Execution { choices, points, outputs, problem, section_order: st.acquisitions.clone(), trace: st.trace.clone() }
}

/// Freshness-bearing fields of the outputs of one execution (kind, bytes).
pub fn fresh_fields(outputs: &[Vec<Output>]) -> Vec<(String, Vec<u8>)> {
    let mut f = vec![];
    let mut enc_fields = |bytes: &[u8], f: &mut Vec<(String, Vec<u8>)>| {
        if let Ok(w) = WEnc::decode(bytes) {
            f.push(("tag".into(), w.tag.clone()));
            for t in &w.traps {
                f.push(("trap".into(), t.clone()));
            }
            for (e, m) in &w.items {
                f.push(("masked seed".into(), m.clone()));
                if let Some(e) = e {
                    f.push(("ML-KEM ciphertext".into(), e.clone()));
                }
            }
        }
    };
    for o in outputs.iter().flatten() {
        match o {
            Output::Enc { secret, enc, .. } => {
                f.push(("secret".into(), secret.clone()));
                enc_fields(enc, &mut f);
            }
            Output::Ctx { enc, body, .. } => {
                enc_fields(enc, &mut f);
                f.push(("AEAD nonce".into(), body[..12.min(body.len())].to_vec()));
            }
            Output::Hdr { secret, hdr, .. } => {
                f.push(("secret".into(), secret.clone()));
                if let Ok(w) = wire::WHeader::decode(hdr) {
                    enc_fields(&w.enc.encode(), &mut f);
                    if w.md.len() >= 12 {
                        f.push(("AEAD nonce".into(), w.md[..12].to_vec()));
                    }
                }
            }
            Output::Key { usk, .. } => {
                if let Ok(w) = WUsk::decode(usk) {
                    f.push(("user id".into(), w.id.concat()));
                }
            }
            _ => {}
        }
    }
    f
}

/// Sequential checks of the outputs of one complete interleaving.
/// (authorised key, unauthorised key) for an encryption policy of the scenarios.
fn keys_for<'a>(fx: &'a Fixture, policy: &str) -> (&'a UserSecretKey, &'a UserSecretKey) {
    if policy.contains("A::y") && !policy.contains("A::x") {
        (&fx.k_yall, &fx.k_x)
    } else if policy.contains("A::x") {
        (&fx.k_x, &fx.k_y)
    } else {
        (&fx.k_hi, &fx.k_y)
    }
}

pub fn judge(fx: &Fixture, outputs: &[Vec<Output>]) -> Option<(String, String)> {
    let cc = Covercrypt::default();
    for (t, outs) in outputs.iter().enumerate() {
        for o in outs {
            match o {
                Output::Failed(m) => return Some(("C19.b".into(), format!("thread {t}: {m}"))),
                Output::Crafted { outcome } if *outcome != fx.crafted_alone => return Some(("C19.b".into(), format!("thread {t}: decapsulating the encapsulation without items gave {outcome:?}, alone it gives {:?}", fx.crafted_alone))),
                Output::Stale { outcome } if *outcome != fx.stale_alone => return Some(("C19.b".into(), format!("thread {t}: re-encapsulating with a public key that predates a right gave {outcome:?}, alone it gives {:?}", fx.stale_alone))),
                Output::Decapsed { ok: false } => return Some(("C19.b".into(), format!("thread {t}: decaps did not return the known secret"))),
                Output::HdrRt { ok: false } => return Some(("C19.b".into(), format!("thread {t}: header did not decrypt to its own secret and metadata"))),
                Output::Enc { policy, secret, enc } => {
                    let Ok(e) = XEnc::deserialize(enc) else { return Some(("C19.b".into(), format!("thread {t}: encapsulation does not deserialise"))) };
                    let (auth, unauth) = keys_for(fx, policy);
                    if !matches!(cc.decaps(auth, &e), Ok(Some(ref s)) if s.to_vec() == *secret) {
                        return Some(("C19.b".into(), format!("thread {t}: the authorised key does not recover the secret encaps({policy}) returned")));
                    }
                    if !matches!(cc.decaps(unauth, &e), Ok(None)) {
                        return Some(("C19.b".into(), format!("thread {t}: an unauthorised key opens encaps({policy})")));
                    }
                }
                Output::Ctx { policy, enc, body } => {
                    let Ok(e) = XEnc::deserialize(enc) else { return Some(("C19.b".into(), format!("thread {t}: ciphertext encapsulation does not deserialise"))) };
                    let (auth, unauth) = keys_for(fx, policy);
                    match PkeAc::<KL, E>::decrypt(&cc, auth, &(e.clone(), body.clone())) {
                        Ok(Some(ptx)) if *ptx == PTX => {}
                        _ => return Some(("C19.b".into(), format!("thread {t}: encrypt({policy}) does not decrypt to the plaintext"))),
                    }
                    if !policy.contains("||") || policy.len() > 40 {
                        if !matches!(PkeAc::<KL, E>::decrypt(&cc, unauth, &(e, body.clone())), Ok(None)) {
                            return Some(("C19.b".into(), format!("thread {t}: an unauthorised key decrypts encrypt({policy})")));
                        }
                    }
                }
                Output::Hdr { policy, secret, hdr } => {
                    let Ok(h) = EncryptedHeader::deserialize(hdr) else { return Some(("C19.b".into(), format!("thread {t}: header does not deserialise"))) };
                    let (auth, unauth) = keys_for(fx, policy);
                    match h.decrypt(&cc, auth, Some(b"ad")) {
                        Ok(Some(c)) if c.secret.to_vec() == *secret && c.metadata.as_deref() == Some(&b"metadata"[..]) => {}
                        _ => return Some(("C19.b".into(), format!("thread {t}: header({policy}) does not decrypt to its secret and metadata"))),
                    }
                    if !matches!(h.decrypt(&cc, unauth, Some(b"ad")), Ok(None)) {
                        return Some(("C19.b".into(), format!("thread {t}: an unauthorised key opens header({policy})")));
                    }
                }
                Output::Key { policy, usk } => {
                    let Ok(u) = UserSecretKey::deserialize(usk) else { return Some(("C19.b".into(), format!("thread {t}: key does not deserialise"))) };
                    let opens = matches!(cc.decaps(&u, &fx.enc0), Ok(Some(ref s)) if s.to_vec() == fx.secret0);
                    if opens != policy.contains("A::x") {
                        return Some(("C19.b".into(), format!("thread {t}: key generated for {policy} {} the reference encapsulation for A::x", if opens { "opens" } else { "does not open" })));
                    }
                }
                Output::Refreshed { usk } => {
                    let Ok(u) = UserSecretKey::deserialize(usk) else { return Some(("C19.b".into(), format!("thread {t}: refreshed key does not deserialise"))) };
                    if !matches!(cc.decaps(&u, &fx.enc0), Ok(Some(ref s)) if s.to_vec() == fx.secret0) {
                        return Some(("C19.b".into(), format!("thread {t}: refreshed key no longer opens the earlier encapsulation")));
                    }
                }
                Output::Rekeyed { mpk } => {
                    if MasterPublicKey::deserialize(mpk).is_err() {
                        return Some(("C19.b".into(), format!("thread {t}: rekey returned an unusable public key")));
                    }
                }
                _ => {}
            }
        }
    }
    let fields = fresh_fields(outputs);
    let mut seen: HashSet<(&str, &[u8])> = HashSet::new();
    for (k, v) in &fields {
        if !seen.insert((k.as_str(), v.as_slice())) {
            return Some(("C19.c".into(), format!("two outputs of concurrent calls share a {k}")));
        }
    }
    None
}

/// The cross-thread half of C16: every interleaving of the small scenarios, freshness only.
pub fn freshness_part(run: &mut Run) {
    use Call::*;
    set_lock_observer(Some(observer));
    let fx = Arc::new(fixture());
    let scs = vec![
        Scenario { name: "F1 encaps | encaps | encaps", threads: vec![vec![Encaps("A::x")], vec![Encaps("A::x")], vec![Encaps("A::x")]] },
        Scenario { name: "F2 encrypt | encrypt", threads: vec![vec![Encrypt("A::x")], vec![Encrypt("A::x")]] },
        Scenario { name: "F3 header | header | keygen", threads: vec![vec![Header("A::x")], vec![Header("A::x")], vec![Keygen("A::x")]] },
        Scenario { name: "F4 keygen;encaps | keygen;encaps", threads: vec![vec![Keygen("A::x"), Encaps("H::hi")], vec![Keygen("A::x"), Encaps("H::hi")]] },
    ];
    let t0 = std::time::Instant::now();
    let mut total = 0u64;
    let mut per = vec![];
    for sc in &scs {
        let mut orders = BTreeSet::new();
        let mut max_points = 0;
        let mut bad = None;
        // freshness-only judgement: explore with the full judge but keep only C19.c verdicts
        let (n, done) = explore(sc, &fx, None, 50_000, t0, 25.0, &mut orders, &mut max_points, &mut bad);
        total += n;
        if let Some((c, m, choices)) = &bad {
            let clause = if c == "C19.c" { "C16.t" } else { c.as_str() };
            if clause == "C16.t" {
                run.report(None, clause, &format!("{}: {m} [schedule {choices:?}]", sc.name), json!({"engine": "sched", "config": wire::NAME, "scenario": sc.name, "schedule": choices}));
            }
        }
        per.push(json!({"scenario": sc.name, "schedules": n, "all_interleavings_explored": done, "distinct_critical_section_orders": orders.len()}));
    }
    set_lock_observer(None);
    run.set("cross_thread_schedules", json!(total));
    run.set("cross_thread_scenarios", json!(per));
}

pub struct SchedStats {
    pub schedules: u64,
    pub bound_completed: Option<usize>,
    pub unbounded_complete: bool,
    pub orders: usize,
    pub max_points: usize,
    pub capped: bool,
}

/// DFS over schedules with at most `bound` preemptions (None = unbounded).
/// What the explorer needs to know about one execution.
#[derive(Clone, Debug)]
pub struct Summary {
    pub choices: Vec<usize>,
    /// per choice point: (number of enabled threads, was the running thread still enabled)
    pub points: Vec<(usize, bool)>,
    pub section_order: Vec<usize>,
    pub steps: Vec<usize>,
    pub verdict: Option<(String, String)>,
}

fn summarize(fx: &Fixture, ex: &Execution) -> Summary {
    Summary {
        choices: ex.choices.clone(),
        points: ex.points.iter().map(|p| (p.enabled.len(), p.current_enabled)).collect(),
        section_order: ex.section_order.clone(),
        // (the initial "thread started" announcements arrive in OS order; everything after them is
        // decided by the schedule)
        steps: ex.trace.iter().filter(|t| t.1 != At::Start).map(|t| t.0).collect(),
        verdict: ex.problem.clone().or_else(|| judge(fx, &ex.outputs)),
    }
}

/// Runs one schedule in a forked child: every execution starts from the same process state
/// (code under test may keep state in process-wide statics), and a deadlocked or hung execution
/// is simply killed. The explorer process is single-threaded when it forks.
pub fn run_isolated(sc: &Scenario, fx: &Arc<Fixture>, prefix: &[usize]) -> Summary {
    let mut fds = [0i32; 2];
    if unsafe { libc::pipe(fds.as_mut_ptr()) } != 0 {
        machinery("pipe failed");
    }
    let pid = unsafe { libc::fork() };
    if pid < 0 {
        machinery("fork failed");
    }
    if pid == 0 {
        // child
        unsafe { libc::close(fds[0]) };
        let ex = execute(sc, fx, prefix);
        let su = summarize(fx, &ex);
        let v = json!({"choices": su.choices, "points": su.points, "order": su.section_order, "steps": su.steps, "verdict": su.verdict});
        let text = v.to_string();
        let bytes = text.as_bytes();
        let mut off = 0;
        while off < bytes.len() {
            let n = unsafe { libc::write(fds[1], bytes[off..].as_ptr() as *const libc::c_void, bytes.len() - off) };
            if n <= 0 {
                break;
            }
            off += n as usize;
        }
        unsafe { libc::_exit(0) };
    }
    unsafe { libc::close(fds[1]) };
    let mut buf = vec![];
    let deadline = std::time::Instant::now() + Duration::from_secs(40);
    let mut timed_out = false;
    loop {
        let left = deadline.saturating_duration_since(std::time::Instant::now()).as_millis() as i32;
        if left <= 0 {
            timed_out = true;
            break;
        }
        let mut pfd = libc::pollfd { fd: fds[0], events: libc::POLLIN, revents: 0 };
        let r = unsafe { libc::poll(&mut pfd, 1, left) };
        if r == 0 {
            timed_out = true;
            break;
        }
        if r < 0 {
            continue;
        }
        let mut chunk = [0u8; 65536];
        let n = unsafe { libc::read(fds[0], chunk.as_mut_ptr() as *mut libc::c_void, chunk.len()) };
        if n <= 0 {
            break;
        }
        buf.extend_from_slice(&chunk[..n as usize]);
    }
    unsafe {
        libc::close(fds[0]);
        libc::kill(pid, libc::SIGKILL);
        let mut st = 0;
        libc::waitpid(pid, &mut st, 0);
    }
    if timed_out {
        return Summary { choices: prefix.to_vec(), points: vec![], section_order: vec![], steps: vec![], verdict: Some(("C19.a".into(), "the execution did not finish within 40 s (hang)".into())) };
    }
    let v: serde_json::Value = serde_json::from_slice(&buf).unwrap_or_else(|_| machinery("an isolated execution died without a result (crash of the harness child)"));
    let us = |x: &serde_json::Value| x.as_array().map(|a| a.iter().filter_map(|y| y.as_u64().map(|n| n as usize)).collect::<Vec<_>>()).unwrap_or_default();
    Summary {
        choices: us(&v["choices"]),
        points: v["points"].as_array().map(|a| a.iter().map(|p| (p[0].as_u64().unwrap_or(0) as usize, p[1].as_bool().unwrap_or(false))).collect()).unwrap_or_default(),
        section_order: us(&v["order"]),
        steps: us(&v["steps"]),
        verdict: v["verdict"].as_array().map(|a| (a[0].as_str().unwrap_or("").to_string(), a[1].as_str().unwrap_or("").to_string())),
    }
}

/// One free-running execution (real threads, no scheduler) in a forked child with a watchdog.
fn free_isolated(sc: &Scenario, fx: &Arc<Fixture>) -> Option<(String, String)> {
    let mut fds = [0i32; 2];
    if unsafe { libc::pipe(fds.as_mut_ptr()) } != 0 {
        machinery("pipe failed");
    }
    let pid = unsafe { libc::fork() };
    if pid < 0 {
        machinery("fork failed");
    }
    if pid == 0 {
        unsafe { libc::close(fds[0]) };
        let cc = Arc::new(Covercrypt::default());
        let hs: Vec<_> = sc
            .threads
            .iter()
            .map(|calls| {
                let (cc, fx, calls) = (cc.clone(), fx.clone(), calls.clone());
                std::thread::spawn(move || {
                    let mut msk = MasterSecretKey::deserialize(&fx.msk_bytes).unwrap();
                    let mut usk = UserSecretKey::deserialize(&fx.issued_usk).unwrap();
                    calls.iter().map(|c| catch_unwind(AssertUnwindSafe(|| run_call(&cc, &fx, &mut msk, &mut usk, c))).unwrap_or_else(|_| Output::Failed(format!("{c:?} panicked")))).collect::<Vec<_>>()
                })
            })
            .collect();
        let outs: Vec<Vec<Output>> = hs.into_iter().map(|h| h.join().unwrap_or_else(|_| vec![Output::Failed("thread panicked".into())])).collect();
        let text = match judge(fx, &outs) {
            Some((c, m)) => format!("{c}\n{m}"),
            None => "ok".to_string(),
        };
        unsafe {
            libc::write(fds[1], text.as_ptr() as *const libc::c_void, text.len());
            libc::_exit(0)
        };
    }
    unsafe { libc::close(fds[1]) };
    let mut pfd = libc::pollfd { fd: fds[0], events: libc::POLLIN, revents: 0 };
    let r = unsafe { libc::poll(&mut pfd, 1, 30_000) };
    let mut buf = [0u8; 4096];
    let n = if r > 0 { unsafe { libc::read(fds[0], buf.as_mut_ptr() as *mut libc::c_void, buf.len()) } } else { -1 };
    unsafe {
        libc::close(fds[0]);
        libc::kill(pid, libc::SIGKILL);
        let mut st = 0;
        libc::waitpid(pid, &mut st, 0);
    }
    if r == 0 {
        return Some(("C19.a".into(), "a free-running execution did not finish within 30 s (deadlock or hang)".into()));
    }
    if n <= 0 {
        machinery("a free-running execution died without a result");
    }
    let text = String::from_utf8_lossy(&buf[..n as usize]).to_string();
    if text == "ok" {
        None
    } else {
        let (c, m) = text.split_once('\n').unwrap_or(("C19.b", &text));
        Some((c.to_string(), m.to_string()))
    }
}

fn preemptions_s(ex: &Summary, upto: usize) -> usize {
    (0..upto).filter(|&i| ex.points[i].1 && ex.choices[i] != 0).count()
}

/// DFS over schedules with at most `bound` preemptions (None = unbounded).
fn explore(sc: &Scenario, fx: &Arc<Fixture>, bound: Option<usize>, cap: u64, t0: std::time::Instant, cap_secs: f64, orders: &mut BTreeSet<Vec<usize>>, max_points: &mut usize, bad: &mut Option<(String, String, Vec<usize>)>) -> (u64, bool) {
    let mut stack: Vec<Vec<usize>> = vec![vec![]];
    let mut n = 0u64;
    while let Some(prefix) = stack.pop() {
        if n >= cap || t0.elapsed().as_secs_f64() > cap_secs {
            return (n, false);
        }
        let ex = run_isolated(sc, fx, &prefix);
        n += 1;
        *max_points = (*max_points).max(ex.points.len());
        orders.insert(ex.section_order.clone());
        if let Some((c, m)) = ex.verdict.clone() {
            // replay twice: must fail identically, at identical scheduling points
            let again = run_isolated(sc, fx, &ex.choices);
            if again.verdict.as_ref().map(|v| &v.0) != Some(&c) || (c != "C19.a" && (again.choices != ex.choices || again.section_order != ex.section_order || again.steps != ex.steps)) {
                machinery(&format!("a failing schedule did not fail identically on replay: {c} {m}"));
            }
            *bad = Some((c, m, ex.choices.clone()));
            return (n, false);
        }
        for i in prefix.len()..ex.points.len() {
            let before = preemptions_s(&ex, i);
            for alt in 1..ex.points[i].0 {
                let cost = before + usize::from(ex.points[i].1);
                if bound.is_some_and(|b| cost > b) {
                    continue;
                }
                let mut p = ex.choices[..i].to_vec();
                p.push(alt);
                stack.push(p);
            }
        }
    }
    (n, true)
}

/// Explores one scenario (in a child process: the lock observer is process-global, so
/// scenarios are explored in parallel processes) and prints its result as one JSON line.
pub fn scenario_main(idx: usize, tier: &str, budget: f64) -> i32 {
    let thorough = tier == "thorough";
    set_lock_observer(Some(observer));
    std::panic::set_hook(Box::new(|_| {}));
    let fx = Arc::new(fixture());
    let scs = scenarios(thorough);
    let sc = &scs[idx];
    // a call that does not even return when run alone on a fresh instance: report it from the
    // scenarios that contain the call, do not explore them (every schedule would hang)
    for (call, alone) in [("DecapsCrafted", &fx.crafted_alone), ("RecapsStale", &fx.stale_alone)] {
        if alone.as_str() == NO_RETURN && sc.threads.iter().flatten().any(|c| format!("{c:?}") == call) {
            println!("SCENARIO-RESULT {}", json!({"scenario": sc.name, "schedules_executed": 0, "distinct_critical_section_orders": 0, "free_running_executions": 0,
                "violation": {"clause": "C19.a", "message": format!("{call} on a fresh instance, alone: {NO_RETURN}"), "schedule": []}}));
            return 0;
        }
    }
    let t0 = std::time::Instant::now();
    let mut orders = BTreeSet::new();
    let mut max_points = 0;
    let mut bad = None;
    let mut completed_bound = None;
    let mut unbounded = false;
    let mut largest = 0u64;
    let mut total = 0u64;
    let bounds: Vec<Option<usize>> = if thorough { vec![Some(0), Some(1), Some(2), Some(3), None] } else { vec![Some(0), Some(1), Some(2), None] };
    for bound in bounds {
        let (n, done) = explore(sc, &fx, bound, 5_000_000, t0, budget, &mut orders, &mut max_points, &mut bad);
        total += n;
        if bad.is_some() || !done {
            break;
        }
        largest = largest.max(n);
        match bound {
            Some(b) => completed_bound = Some(b),
            None => unbounded = true,
        }
    }
    set_lock_observer(None);
    // supplementary free-running pass (SAMPLING): real threads, no scheduler
    let iters = if thorough { 300 } else { 40 };
    let mut free = 0u64;
    let mut free_bad: Option<(String, String)> = None;
    for _ in 0..iters {
        free += 1;
        if let Some(v) = free_isolated(sc, &fx) {
            free_bad = Some(v);
            break;
        }
    }
    let out = json!({
        "scenario": sc.name,
        "threads": sc.threads.iter().map(|t| format!("{t:?}")).collect::<Vec<_>>(),
        "schedules_executed": total,
        "schedules_in_largest_completed_search": largest,
        "preemption_bound_completed": completed_bound,
        "unbounded_search_completed": unbounded,
        "distinct_critical_section_orders": orders.len(),
        "a_section_order": orders.iter().next(),
        "max_choice_points": max_points,
        "free_running_executions": free,
        "violation": bad.as_ref().map(|(c, m, ch)| json!({"clause": c, "message": m, "schedule": ch})),
        "free_running_violation": free_bad.as_ref().map(|(c, m)| json!({"clause": c, "message": m})),
    });
    println!("SCENARIO-RESULT {}", out);
    0
}

pub fn check(prop: &str, tier: &str) -> i32 {
    let thorough = tier == "thorough";
    let mut run = Run::new(prop, tier, "model_checking");
    let cap_secs: f64 = std::env::var("VERIF_CAP_SECS").ok().and_then(|s| s.parse().ok()).unwrap_or(if thorough { 400.0 } else { 30.0 });
    let scs = scenarios(thorough);
    let exe = std::env::current_exe().unwrap_or_else(|e| machinery(&format!("current_exe: {e}")));
    // reduced run on the second configuration: three scenarios, 8 s
    let reduced = !thorough && crate::common::is_sub();
    let cap_secs = if reduced { cap_secs.min(8.0) } else { cap_secs };
    let selected: Vec<usize> = (0..scs.len()).filter(|i| !reduced || [0usize, 2, 3].contains(i)).collect();
    // one child process per scenario, all in parallel
    let children: Vec<_> = selected.iter().copied()
        .map(|i| {
            std::process::Command::new(&exe)
                .args(["sched-scenario", &i.to_string(), tier, &cap_secs.to_string()])
                .stdout(std::process::Stdio::piped())
                .stderr(std::process::Stdio::null())
                .spawn()
                .unwrap_or_else(|e| machinery(&format!("cannot spawn scenario process: {e}")))
        })
        .collect();
    let mut total = 0u64;
    let mut free = 0u64;
    let mut per = vec![];
    // a scenario process that is still running long after its budget is killed: the run is then a
    // machinery failure, never a hang
    let deadline = std::time::Instant::now() + Duration::from_secs_f64(cap_secs * 3.0 + 180.0);
    let mut children = children;
    loop {
        let running = children.iter_mut().filter_map(|c| c.try_wait().ok()).filter(Option::is_none).count();
        if running == 0 {
            break;
        }
        if std::time::Instant::now() > deadline {
            for c in children.iter_mut() {
                let _ = c.kill();
            }
            machinery(&format!("{running} scenario process(es) still running {:.0} s after the start (budget {cap_secs} s): killed", cap_secs * 3.0 + 180.0));
        }
        std::thread::sleep(Duration::from_millis(100));
    }
    for (i, c) in selected.iter().copied().zip(children.into_iter()) {
        let out = c.wait_with_output().unwrap_or_else(|e| machinery(&format!("scenario process: {e}")));
        let text = String::from_utf8_lossy(&out.stdout).to_string();
        if let Some(m) = text.lines().find(|l| l.starts_with("MACHINERY-ERROR")) {
            machinery(&format!("scenario {}: {m}", scs[i].name));
        }
        let Some(line) = text.lines().find(|l| l.starts_with("SCENARIO-RESULT ")) else { machinery(&format!("scenario {} produced no result (exit {:?})", scs[i].name, out.status.code())) };
        let v: serde_json::Value = serde_json::from_str(&line["SCENARIO-RESULT ".len()..]).unwrap_or_else(|e| machinery(&format!("scenario result: {e}")));
        total += v["schedules_executed"].as_u64().unwrap_or(0);
        free += v["free_running_executions"].as_u64().unwrap_or(0);
        if let Some(b) = v["violation"].as_object() {
            let c = b["clause"].as_str().unwrap_or("C19.a");
            run.report(None, c, &format!("{}: {} [schedule {}]", scs[i].name, b["message"].as_str().unwrap_or(""), b["schedule"]), json!({"engine": "sched", "config": wire::NAME, "scenario": scs[i].name, "schedule": b["schedule"]}));
        } else if v["distinct_critical_section_orders"].as_u64().unwrap_or(0) < 2 {
            machinery(&format!("scenario {} explored fewer than two critical-section orders", scs[i].name));
        }
        if let Some(b) = v["free_running_violation"].as_object() {
            run.report(None, b["clause"].as_str().unwrap_or("C19.b"), &format!("{} (free-running pass): {}", scs[i].name, b["message"].as_str().unwrap_or("")), json!({"engine": "sched-free", "scenario": scs[i].name}));
        }
        if i < 3 {
            run.sample(json!({"scenario": scs[i].name, "a_section_order": v["a_section_order"]}));
        }
        per.push(v);
    }
    // liveness over a long run: more than 2^16 (thorough 2^20) acquisitions of the generator
    soak(&mut run, if thorough { 1_100_000 } else if reduced { 70_000 } else { 140_000 });
    run.set("states", json!(total));
    run.set("transitions", json!(total));
    run.set("traces_validated_against_impl", json!(total));
    run.set("schedules_executed", json!(total));
    run.set("scenarios", json!(per));
    run.set("free_running_executions_sampling", json!(free));
    run.set("rule", json!("every schedule is one complete execution of the scenario's real API calls on one shared Covercrypt under the controlled scheduler (scheduling points: thread start, before lock, right after acquisition, before try_lock); iterative preemption bounding 0,1,2(,3) then unbounded, one process per scenario; 'states'/'transitions' count executed schedules (stateless search); each complete interleaving is judged sequentially: liveness, per-call correctness against fixed keys, pairwise distinct freshness-bearing fields"));
    run.assume("only synchronisation routed through the lock seam is controlled; the free-running pass (sampling) is the backstop for anything else");
    run.assume("memory-ordering effects are irrelevant: the only synchronisation is one mutex; the crate has no unsafe code");
    run.finish()
}

/// Liveness over a long run (child process): `threads` threads share one instance and together
/// take its generator `total` times (mostly plain draws through `rng()`, every 64th iteration a
/// real encapsulation / decapsulation / header); prints "SOAK-DONE <n>" when every thread
/// returned. The parent kills it after a deadline.
pub fn soak_main(total: u64, threads: u64) -> i32 {
    use cosmian_crypto_core::reexport::rand_core::RngCore;
    let fx = Arc::new(fixture());
    println!("SOAK-START");
    let cc = Arc::new(Covercrypt::default());
    let done = Arc::new(std::sync::atomic::AtomicU64::new(0));
    let bad = Arc::new(Mutex::new(None::<String>));
    let hs: Vec<_> = (0..threads)
        .map(|t| {
            let (fx, cc, done, bad) = (fx.clone(), cc.clone(), done.clone(), bad.clone());
            std::thread::spawn(move || {
                let mut msk = MasterSecretKey::deserialize(&fx.msk_bytes).expect("fixture msk");
                let mut usk = UserSecretKey::deserialize(&fx.issued_usk).expect("fixture usk");
                let mut seen = HashSet::new();
                for i in 0..total / threads {
                    if i % 64 == 63 {
                        let call = match (i / 64) % 3 { 0 => Call::Encaps("A::x"), 1 => Call::Decaps, _ => Call::Header("A::x") };
                        let out = run_call(&cc, &fx, &mut msk, &mut usk, &call);
                        if let Some((c, m)) = judge(&fx, &[vec![out]]) {
                            *bad.lock().unwrap() = Some(format!("[{c}] thread {t}, iteration {i}: {m}"));
                            return;
                        }
                    } else {
                        let mut b = [0u8; 12];
                        cc.rng().fill_bytes(&mut b);
                        if !seen.insert(b) {
                            *bad.lock().unwrap() = Some(format!("[C19.c] thread {t}, iteration {i}: a 12-byte draw repeated"));
                            return;
                        }
                    }
                    done.fetch_add(1, std::sync::atomic::Ordering::Relaxed);
                }
            })
        })
        .collect();
    // progress lines let the parent say how far the run got when it has to kill it
    let mut last = 0;
    loop {
        std::thread::sleep(Duration::from_millis(200));
        let d = done.load(std::sync::atomic::Ordering::Relaxed);
        println!("SOAK-PROGRESS {d}");
        if hs.iter().all(|h| h.is_finished()) {
            break;
        }
        let _ = last;
        last = d;
    }
    if let Some(m) = bad.lock().unwrap().clone() {
        println!("SOAK-BAD {m}");
        return 1;
    }
    println!("SOAK-DONE {}", done.load(std::sync::atomic::Ordering::Relaxed));
    0
}

/// Runs the soak in a child process with a deadline.
fn soak(run: &mut Run, total: u64) {
    use std::io::{BufRead, BufReader};
    let exe = std::env::current_exe().unwrap_or_else(|e| machinery(&format!("current_exe: {e}")));
    let mut child = std::process::Command::new(&exe)
        .args(["sched-soak", &total.to_string(), "4"])
        .stdout(std::process::Stdio::piped())
        .stderr(std::process::Stdio::null())
        .spawn()
        .unwrap_or_else(|e| machinery(&format!("cannot spawn soak process: {e}")));
    let out = child.stdout.take().unwrap();
    let (tx, rx) = std::sync::mpsc::channel::<String>();
    std::thread::spawn(move || {
        for l in BufReader::new(out).lines().map_while(Result::ok) {
            if tx.send(l).is_err() {
                break;
            }
        }
    });
    // no progress for 20 s = stuck (a whole run takes a few seconds)
    let mut progress = 0u64;
    let mut verdict: Option<Result<u64, String>> = None;
    let mut last_change = std::time::Instant::now();
    let mut started = false;
    let spawned = std::time::Instant::now();
    while verdict.is_none() {
        match rx.recv_timeout(Duration::from_millis(500)) {
            Ok(l) => {
                if l.starts_with("SOAK-START") {
                    started = true;
                    last_change = std::time::Instant::now();
                } else if let Some(n) = l.strip_prefix("SOAK-PROGRESS ") {
                    let n: u64 = n.trim().parse().unwrap_or(progress);
                    if n != progress {
                        progress = n;
                        last_change = std::time::Instant::now();
                    }
                } else if let Some(n) = l.strip_prefix("SOAK-DONE ") {
                    verdict = Some(Ok(n.trim().parse().unwrap_or(0)));
                } else if let Some(m) = l.strip_prefix("SOAK-BAD ") {
                    verdict = Some(Err(m.to_string()));
                }
            }
            Err(std::sync::mpsc::RecvTimeoutError::Timeout) => {}
            Err(std::sync::mpsc::RecvTimeoutError::Disconnected) => {
                verdict = Some(Err(format!("MACHINERY the soak process ended without a verdict after {progress} acquisitions")));
            }
        }
        if verdict.is_none() && !started && spawned.elapsed() > Duration::from_secs(180) {
            verdict = Some(Err("MACHINERY the soak process did not finish its set-up within 180 s".to_string()));
        }
        if verdict.is_none() && started && last_change.elapsed() > Duration::from_secs(20) {
            verdict = Some(Err(format!("[C19.a] no call returned for 20 s after {progress} of {total} acquisitions of the shared generator by 4 threads: calls block forever")));
        }
    }
    let _ = child.kill();
    let _ = child.wait();
    match verdict.unwrap() {
        Ok(n) => run.set("soak_generator_acquisitions_4_threads", json!(n)),
        Err(m) if m.starts_with("MACHINERY") => machinery(&m),
        Err(m) => {
            let clause = if m.starts_with("[C19.a]") { "C19.a" } else if m.starts_with("[C19.c]") { "C19.c" } else { "C19.b" };
            run.report(None, clause, &format!("long run on one shared instance: {m}"), json!({"engine": "sched-soak", "total": total}));
        }
    }
}

pub fn replay(scenario: &str, schedule: &[usize]) -> Option<(String, String)> {
    set_lock_observer(Some(observer));
    let fx = Arc::new(fixture());
    let scs = scenarios(true);
    let scq = scenarios(false);
    let sc = scs.iter().chain(scq.iter()).find(|s| s.name == scenario).unwrap_or_else(|| machinery("unknown scenario"));
    let ex = run_isolated(sc, &fx, schedule);
    println!("section order {:?}", ex.section_order);
    ex.verdict
}
