//! Reference model, written from the property statements (never from the code).
//!
//! Attributes are *tokens*: every attribute ever created gets a fresh token,
//! rename keeps it, delete retires it for ever. Rights are sets of tokens (at
//! most one per dimension). Secrets are *versions*: a fresh number for every
//! secret the master key creates for a right.

use std::collections::{BTreeMap, BTreeSet};
use std::fmt::Write as _;

pub type Tok = u32;
pub type Ver = u32;
pub type RightM = Vec<Tok>; // sorted

#[derive(Clone, Debug, PartialEq, Eq)]
pub struct AttrM {
    pub name: String,
    pub tok: Tok,
    pub hybrid: bool,
    pub disabled: bool,
}

#[derive(Clone, Debug, PartialEq, Eq)]
pub struct DimM {
    pub ordered: bool,
    /// rank order (lowest first) for a hierarchy; creation order otherwise
    pub attrs: Vec<AttrM>,
}

#[derive(Clone, Debug, PartialEq, Eq, Default)]
pub struct StructM {
    pub dims: BTreeMap<String, DimM>,
}

/// A policy in disjunctive normal form over (dimension, attribute) names.
pub type Dnf = Vec<Vec<(String, String)>>;

/// Parses the DNF subset used by the menus: clauses separated by `||`, attributes by `&&`, `*`
/// is the empty clause. (The implementation's parser is checked separately, by C15.)
pub fn parse_dnf(s: &str) -> Dnf {
    s.split("||")
        .map(|clause| {
            let clause = clause.trim();
            if clause == "*" {
                vec![]
            } else {
                clause
                    .split("&&")
                    .map(|a| {
                        let a = a.trim();
                        let (d, n) = a.split_once("::").unwrap_or_else(|| panic!("bad menu attribute {a}"));
                        (d.trim().to_string(), n.trim().to_string())
                    })
                    .collect()
            }
        })
        .collect()
}

impl StructM {
    pub fn find(&self, dim: &str, name: &str) -> Option<&AttrM> {
        self.dims.get(dim)?.attrs.iter().find(|a| a.name == name)
    }
    pub fn find_mut(&mut self, dim: &str, name: &str) -> Option<&mut AttrM> {
        self.dims.get_mut(dim)?.attrs.iter_mut().find(|a| a.name == name)
    }
    pub fn tok_attr(&self, t: Tok) -> Option<(&String, &AttrM)> {
        for (dn, d) in &self.dims {
            if let Some(a) = d.attrs.iter().find(|a| a.tok == t) {
                return Some((dn, a));
            }
        }
        None
    }

    /// Ω: every combination of at most one attribute per dimension, with (hybrid, disabled).
    pub fn omega(&self) -> BTreeMap<RightM, (bool, bool)> {
        let mut acc: Vec<(RightM, bool, bool)> = vec![(vec![], false, false)];
        for d in self.dims.values() {
            let mut next = acc.clone();
            for a in &d.attrs {
                for (r, h, dis) in &acc {
                    let mut r2 = r.clone();
                    r2.push(a.tok);
                    r2.sort_unstable();
                    next.push((r2, *h || a.hybrid, *dis || a.disabled));
                }
            }
            acc = next;
        }
        acc.into_iter().map(|(r, h, d)| (r, (h, d))).collect()
    }

    /// Rights a user key for `dnf` holds: for every clause, per dimension, nothing or
    /// (mentioned: the attribute itself, or any lower one in a hierarchy; unmentioned: anything).
    /// `None` if an attribute does not resolve.
    pub fn usk_rights(&self, dnf: &Dnf) -> Option<BTreeSet<RightM>> {
        let mut out = BTreeSet::new();
        for clause in dnf {
            let mut per_dim: Vec<Vec<Option<Tok>>> = vec![];
            for (d, n) in clause {
                self.find(d, n)?;
            }
            for (dn, d) in &self.dims {
                let mentioned: Vec<&(String, String)> = clause.iter().filter(|(cd, _)| cd == dn).collect();
                let mut allowed: Vec<Option<Tok>> = vec![None];
                if mentioned.is_empty() {
                    allowed.extend(d.attrs.iter().map(|a| Some(a.tok)));
                } else {
                    // a clause naming one dimension twice is excluded from the menus; take the last
                    let name = &mentioned[mentioned.len() - 1].1;
                    if d.ordered {
                        let rank = d.attrs.iter().position(|a| &a.name == name)?;
                        allowed.extend(d.attrs[..=rank].iter().map(|a| Some(a.tok)));
                    } else {
                        allowed.push(Some(d.attrs.iter().find(|a| &a.name == name)?.tok));
                    }
                }
                per_dim.push(allowed);
            }
            let mut acc: Vec<RightM> = vec![vec![]];
            for allowed in per_dim {
                let mut next = vec![];
                for r in &acc {
                    for a in &allowed {
                        let mut r2 = r.clone();
                        if let Some(t) = a {
                            r2.push(*t);
                        }
                        next.push(r2);
                    }
                }
                acc = next;
            }
            for mut r in acc {
                r.sort_unstable();
                out.insert(r);
            }
        }
        Some(out)
    }

    /// Rights targeted by an encryption policy: one per clause. `None` if unresolvable.
    pub fn enc_rights(&self, dnf: &Dnf) -> Option<BTreeSet<RightM>> {
        let mut out = BTreeSet::new();
        for clause in dnf {
            let mut r = vec![];
            for (d, n) in clause {
                r.push(self.find(d, n)?.tok);
            }
            r.sort_unstable();
            out.insert(r);
        }
        Some(out)
    }

    pub fn canon(&self, ren: &dyn Fn(Tok) -> String) -> String {
        let mut s = String::new();
        for (n, d) in &self.dims {
            let _ = write!(s, "{n}{}[", if d.ordered { "<" } else { "~" });
            let mut attrs: Vec<&AttrM> = d.attrs.iter().collect();
            if !d.ordered {
                attrs.sort_by(|a, b| a.name.cmp(&b.name));
            }
            for a in attrs {
                let _ = write!(s, "{}={}{}{} ", a.name, ren(a.tok), if a.hybrid { "h" } else { "c" }, if a.disabled { "!" } else { "" });
            }
            s.push(']');
        }
        s
    }
}

#[derive(Clone, Debug, PartialEq, Eq)]
pub struct ChainEntry {
    pub ver: Ver,
    pub activated: bool,
    pub hybrid: bool,
}

#[derive(Clone, Debug, Default)]
pub struct Model {
    /// the master key's current structure (pending edits included)
    pub st: StructM,
    /// newest-first chains
    pub master: BTreeMap<RightM, Vec<ChainEntry>>,
    pub next_tok: Tok,
    pub next_ver: Ver,
    /// number of user ids the master key must know
    pub registered: usize,
}

#[derive(Clone, Debug, PartialEq, Eq)]
pub struct MpkM {
    pub st: StructM,
    /// right -> (version, hybrid)
    pub keys: BTreeMap<RightM, (Ver, bool)>,
}

#[derive(Clone, Debug, PartialEq, Eq, Default)]
pub struct UskM {
    /// right -> versions held (newest first, as last observed/predicted)
    pub held: BTreeMap<RightM, Vec<Ver>>,
    /// secrets held without their ML-KEM part (as last observed): they cannot open a
    /// hybridized encapsulation. Only differs from the right's flavour in histories where the
    /// listed id-reuse finding made an update drop the hybridization of an existing secret.
    pub classic: BTreeSet<(RightM, Ver)>,
}

#[derive(Clone, Debug, PartialEq, Eq)]
pub struct EncM {
    pub targets: BTreeSet<(RightM, Ver)>,
    pub hybrid: bool,
}

/// What the model says a refresh must produce.
#[derive(Clone, Debug)]
pub struct RefreshPrediction {
    /// per right still in the master key: versions the refreshed key must hold / may hold
    pub must: BTreeMap<RightM, BTreeSet<Ver>>,
    pub may: BTreeMap<RightM, BTreeSet<Ver>>,
}

impl Model {
    pub fn fresh_tok(&mut self) -> Tok {
        self.next_tok += 1;
        self.next_tok - 1
    }
    fn fresh_ver(&mut self) -> Ver {
        self.next_ver += 1;
        self.next_ver - 1
    }

    // ---- structure edits: Ok(()) / Err(()) as documented -------------------------------

    pub fn add_dim(&mut self, name: &str, ordered: bool) -> Result<(), ()> {
        if self.st.dims.contains_key(name) {
            return Err(());
        }
        self.st.dims.insert(name.to_string(), DimM { ordered, attrs: vec![] });
        Ok(())
    }
    pub fn del_dim(&mut self, name: &str) -> Result<(), ()> {
        self.st.dims.remove(name).map(|_| ()).ok_or(())
    }
    pub fn add_attr(&mut self, dim: &str, name: &str, hybrid: bool, after: Option<&str>) -> Result<Tok, ()> {
        let next = self.next_tok;
        let d = self.st.dims.get_mut(dim).ok_or(())?;
        if d.attrs.iter().any(|a| a.name == name) {
            return Err(());
        }
        let attr = AttrM { name: name.to_string(), tok: next, hybrid, disabled: false };
        if d.ordered {
            match after {
                None => d.attrs.insert(0, attr),
                Some(x) => {
                    let p = d.attrs.iter().position(|a| a.name == x).ok_or(())?;
                    d.attrs.insert(p + 1, attr);
                }
            }
        } else {
            // `after` has no effect in an anarchy
            d.attrs.push(attr);
        }
        self.next_tok += 1;
        Ok(next)
    }
    pub fn del_attr(&mut self, dim: &str, name: &str) -> Result<(), ()> {
        let d = self.st.dims.get_mut(dim).ok_or(())?;
        let p = d.attrs.iter().position(|a| a.name == name).ok_or(())?;
        d.attrs.remove(p);
        Ok(())
    }
    pub fn rename(&mut self, dim: &str, name: &str, new: &str) -> Result<(), ()> {
        let d = self.st.dims.get_mut(dim).ok_or(())?;
        if d.attrs.iter().any(|a| a.name == new) {
            return Err(());
        }
        let a = d.attrs.iter_mut().find(|a| a.name == name).ok_or(())?;
        a.name = new.to_string();
        Ok(())
    }
    pub fn disable(&mut self, dim: &str, name: &str) -> Result<(), ()> {
        self.st.find_mut(dim, name).map(|a| a.disabled = true).ok_or(())
    }

    // ---- master-key operations ---------------------------------------------------------

    /// `update`: drop rights outside Ω, create missing ones (error if one would be born
    /// disabled; nothing changes then), set the activation of the newest secret from the
    /// structure. Returns the versions created.
    pub fn update(&mut self) -> Result<Vec<(RightM, Ver)>, ()> {
        let omega = self.st.omega();
        for (r, (_, disabled)) in &omega {
            if !self.master.contains_key(r) && *disabled {
                return Err(());
            }
        }
        self.master.retain(|r, _| omega.contains_key(r));
        let mut created = vec![];
        for (r, (hybrid, disabled)) in omega {
            if let Some(chain) = self.master.get_mut(&r) {
                chain[0].activated = !disabled;
                if !hybrid {
                    chain[0].hybrid = false;
                }
            } else {
                let v = self.fresh_ver();
                self.master.insert(r.clone(), vec![ChainEntry { ver: v, activated: true, hybrid }]);
                created.push((r, v));
            }
        }
        Ok(created)
    }

    /// `rekey`: a fresh secret in front of the chain of every right of the policy's user space;
    /// flavour and activation of the previous newest secret are kept. Error (nothing changes)
    /// if the policy does not resolve or a right is absent from the master key.
    pub fn rekey(&mut self, dnf: &Dnf) -> Result<Vec<(RightM, Ver)>, ()> {
        let rights = self.st.usk_rights(dnf).ok_or(())?;
        if rights.iter().any(|r| !self.master.contains_key(r)) {
            return Err(());
        }
        let mut created = vec![];
        for r in rights {
            let v = self.fresh_ver();
            let chain = self.master.get_mut(&r).expect("checked");
            let front = chain[0].clone();
            chain.insert(0, ChainEntry { ver: v, activated: front.activated, hybrid: front.hybrid });
            created.push((r, v));
        }
        Ok(created)
    }

    /// `prune`: only the newest secret of every right of the policy's user space remains.
    pub fn prune(&mut self, dnf: &Dnf) -> Result<(), ()> {
        let rights = self.st.usk_rights(dnf).ok_or(())?;
        for r in rights {
            if let Some(chain) = self.master.get_mut(&r) {
                chain.truncate(1);
            }
        }
        Ok(())
    }

    pub fn keygen(&mut self, dnf: &Dnf) -> Result<UskM, ()> {
        let rights = self.st.usk_rights(dnf).ok_or(())?;
        if rights.iter().any(|r| !self.master.contains_key(r)) {
            return Err(());
        }
        self.registered += 1;
        Ok(UskM { held: rights.into_iter().map(|r| { let v = self.master[&r][0].ver; (r, vec![v]) }).collect(), classic: BTreeSet::new() })
    }

    /// `refresh` of an issued key always succeeds. Rights absent from the master key are
    /// dropped; for the others the key must hold the newest secret and (keep) every secret it
    /// held that is still in the master chain; it may hold nothing outside the master chain
    /// (keep) / nothing but the newest secret (drop).
    pub fn refresh(&self, usk: &UskM, keep: bool) -> RefreshPrediction {
        let mut must = BTreeMap::new();
        let mut may = BTreeMap::new();
        for (r, held) in &usk.held {
            if let Some(chain) = self.master.get(r) {
                let newest = chain[0].ver;
                let in_chain: BTreeSet<Ver> = chain.iter().map(|c| c.ver).collect();
                let mut m: BTreeSet<Ver> = [newest].into_iter().collect();
                let mut y: BTreeSet<Ver> = [newest].into_iter().collect();
                if keep {
                    m.extend(held.iter().filter(|v| in_chain.contains(v)));
                    y = in_chain;
                }
                must.insert(r.clone(), m);
                may.insert(r.clone(), y);
            }
        }
        RefreshPrediction { must, may }
    }

    pub fn mpk(&self) -> MpkM {
        MpkM {
            st: self.st.clone(),
            keys: self
                .master
                .iter()
                .filter(|(_, c)| c[0].activated)
                .map(|(r, c)| (r.clone(), (c[0].ver, c[0].hybrid)))
                .collect(),
        }
    }
}

impl MpkM {
    /// `encaps` succeeds iff the policy resolves in this key's structure and every targeted
    /// right has a published key; it is hybridized iff every targeted right is.
    pub fn encaps(&self, dnf: &Dnf) -> Result<EncM, ()> {
        let rights = self.st.enc_rights(dnf).ok_or(())?;
        let mut targets = BTreeSet::new();
        let mut hybrid = true;
        for r in rights {
            let (v, h) = self.keys.get(&r).ok_or(())?;
            hybrid &= *h;
            targets.insert((r, *v));
        }
        Ok(EncM { targets, hybrid })
    }
}

impl UskM {
    pub fn opens(&self, enc: &EncM) -> bool {
        enc.targets.iter().any(|(r, v)| self.held.get(r).is_some_and(|h| h.contains(v)) && !(enc.hybrid && self.classic.contains(&(r.clone(), *v))))
    }
}
