mod common;
mod histex;
mod model;
mod polmat;
mod probes;
mod tracing;
mod wire;
mod world;
mod checks;
mod fixtures;

fn main() {
    let args: Vec<String> = std::env::args().skip(1).collect();
    let code = checks::dispatch(&args);
    std::process::exit(code);
}
