mod alloc;
mod common;
mod fparse;
mod ftamper;
mod histex;
mod model;
mod parsex;
mod polmat;
mod probes;
mod sched;
mod seqfresh;
mod tracing;
mod wire;
mod world;
mod checks;
mod fixtures;

#[global_allocator]
static GLOBAL: alloc::Counting = alloc::Counting;

fn main() {
    let args: Vec<String> = std::env::args().skip(1).collect();
    let code = checks::dispatch(&args);
    std::process::exit(code);
}

#[cfg(test)]
mod tests {
    /// `VERIF_REPLAY=<file> cargo test replay_file` re-executes one recorded case as a plain unit
    /// test, without any explorer; it fails if the recorded violation reproduces.
    #[test]
    fn replay_file() {
        if let Ok(path) = std::env::var("VERIF_REPLAY") {
            assert_eq!(crate::checks::replay(&path), 0, "the violation recorded in {path} reproduces");
        }
    }
}
