mod alloc;
mod common;
mod fparse;
mod ftamper;
mod histex;
mod model;
mod parsex;
mod polmat;
mod probes;
mod sched;
mod seqfresh;
mod tracing;
mod wire;
mod world;
mod checks;
mod fixtures;

#[global_allocator]
static GLOBAL: alloc::Counting = alloc::Counting;

fn main() {
    let args: Vec<String> = std::env::args().skip(1).collect();
    let code = checks::dispatch(&args);
    std::process::exit(code);
}
