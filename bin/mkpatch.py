#!/usr/bin/env python3
"""mkpatch.py <out.diff> <file> <old> <new> [<file> <old> <new> ...] : build a patch against /repo HEAD by textual replacement"""
import sys, subprocess, difflib
out = sys.argv[1]; args = sys.argv[2:]
patch = ""
files = {}
for i in range(0, len(args), 3):
    f, old, new = args[i:i+3]
    src = files.get(f) or subprocess.run(["git", "-C", "/repo", "show", f"HEAD:{f}"], capture_output=True, text=True, check=True).stdout
    assert src.count(old) == 1, (f, old, src.count(old))
    files[f] = src.replace(old, new)
for f, new in files.items():
    orig = subprocess.run(["git", "-C", "/repo", "show", f"HEAD:{f}"], capture_output=True, text=True, check=True).stdout
    patch += "".join(difflib.unified_diff(orig.splitlines(True), new.splitlines(True), f"a/{f}", f"b/{f}"))
open(out, "w").write(patch)
print("wrote", out, len(patch), "bytes")
