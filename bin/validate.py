#!/usr/bin/env python3-vt
import json, sys, glob, jsonschema
jsonschema.validate(json.load(open('/verif/MANIFEST.json')), json.load(open('/root/.vp/MANIFEST.schema.json')))
es = json.load(open('/root/.vp/EVIDENCE.schema.json'))
bad = 0
for f in sorted(glob.glob('/verif/evidence/C*.json')):
    try:
        jsonschema.validate(json.load(open(f)), es)
    except Exception as e:
        bad += 1
        print('INVALID', f, str(e)[:300])
print('manifest valid;', len(glob.glob('/verif/evidence/C*.json')), 'evidence files,', bad, 'invalid')
sys.exit(1 if bad else 0)
