#!/usr/bin/env python3
"""Regenerates MANIFEST.json from the table below (kept next to the checks so that the
manifest never drifts from what bin/check implements)."""
import json, os, subprocess
ROOT = os.path.dirname(os.path.dirname(os.path.abspath(__file__)))
props = [json.loads(l) for l in open(os.path.join(ROOT, "properties.jsonl"))]

# id -> (engine, category, technique, text, note, design_ref)
CHECKS = {}
exec(open(os.path.join(ROOT, "bin", "checks_table.py")).read())

hooks_commits = subprocess.run(["git", "-C", "/repo", "log", "--format=%H", "--grep=^verif hooks"], capture_output=True, text=True).stdout.split()
man = {
    "version": 1,
    "setup_cmd": "bin/check --setup",
    "hooks": {
        "guard": "--cfg cosmian_cover_crypt_verif",
        "enable": "RUSTFLAGS=\"--cfg cosmian_cover_crypt_verif\" (set by bin/build; harness builds in /verif/target-a and /verif/target-b, path dependency on /repo)",
        "baseline_off_cmd": "cd /repo && cargo test --workspace --no-fail-fast --offline",
        "source_commits": hooks_commits,
        "add_only": True,
    },
    "engines": ENGINES,
    "checks": [],
    "not_applicable": [],
    "notes": NOTES,
}
for p in props:
    pid = p["id"]
    if pid in CHECKS:
        c = CHECKS[pid]
        man["checks"].append({
            "property_id": pid,
            "quick_cmd": f"bin/check {pid} quick",
            "thorough_cmd": f"bin/check {pid} thorough",
            "evidence_file": f"/verif/evidence/{pid}.json",
            "replay_cmd_template": f"bin/check {pid} --replay {{path}}",
            "engine": c["engine"],
            "level_claimed": {"category": c["category"], "text": c["text"], "design_ref": c["design_ref"]},
            "level_note": c["note"],
            "technique": c["technique"],
        })
    else:
        man["not_applicable"].append({"property_id": pid, "reason": NOT_YET.get(pid, "check not built yet in this round (planned, see DESIGN.md section 5)")})
json.dump(man, open(os.path.join(ROOT, "MANIFEST.json"), "w"), indent=1)
print("checks:", [c["property_id"] for c in man["checks"]], "not_applicable:", [c["property_id"] for c in man["not_applicable"]])
