ENGINES = [
    {"name": "histex", "path": "harness/src/histex.rs", "serves_properties": ["C03", "C04", "C05", "C06", "C09", "C10", "C11", "C13", "C17", "C18"],
     "kind_free_text": "explicit-state BFS over public-API histories; every transition executes the real library call; lock-step reference model; dedup on canonical (model, decoded implementation) state"},
]
NOTES = "All checks: bin/check <ID> quick|thorough. Exit 0 held / 1 VIOLATION / 2 machinery error. See DESIGN.md."
NOT_YET = {}
CHECKS = {
 "C04": dict(engine="histex", category="model_checking", technique="explicit-state BFS over API histories on the real code, lock-step reference model",
   text="Every rekey/prune/refresh/keygen history up to the stated depth from the initial world is executed on the real library; after every transition the decoded chains and the decaps matrix (every live key x every menu policy under every public key published so far) are compared with the version model.",
   note="Small scope (2 dimensions x 2 attributes, <=3 keys, fixed policy menus); cryptographic primitives and the CSPRNG trusted; wire decoder harness/src/wire.rs is the observation channel.",
   design_ref="§5.C04"),
}
